//! mirfacts — rustc_private driver that dumps a JSON fact base of the type-checked
//! program (pre-borrowck "promoted" MIR of every body, resolved callees, ADTs, impls,
//! constant values, coroutine layouts). Used as RUSTC_WORKSPACE_WRAPPER under
//! `cargo +nightly check`. See /verif/DESIGN.md §2.1.
#![feature(rustc_private)]
#![allow(clippy::all)]

extern crate rustc_abi;
extern crate rustc_data_structures;
extern crate rustc_driver;
extern crate rustc_hir;
extern crate rustc_index;
extern crate rustc_interface;
extern crate rustc_middle;
extern crate rustc_session;
extern crate rustc_span;

mod json;
use json::J;

use rustc_driver::{Callbacks, Compilation};
use rustc_hir::def::DefKind;
use rustc_hir::def_id::{DefId, LocalDefId};
use rustc_middle::mir::{
    self, AggregateKind, BasicBlock, Body, Operand, Place, ProjectionElem, Rvalue, StatementKind,
    TerminatorKind, UnwindAction, VarDebugInfoContents,
};
use rustc_middle::ty::{self, Instance, InstanceKind, Ty, TyCtxt, TypingEnv};
use rustc_span::Span;
use std::collections::BTreeMap;

struct Cb {
    fns: Vec<(String, J)>,
    ext_enums: BTreeMap<String, Vec<(String, i128)>>,
}

fn dp(tcx: TyCtxt<'_>, d: DefId) -> String {
    let s = tcx.def_path_str(d);
    // A bin target shares its crate name with the package's lib target: mark the bin's own
    // items so that `ic_btc_canister::init` (lib) and the bin's `init` do not collide.
    if d.is_local()
        && tcx.crate_types().iter().any(|t| matches!(t, rustc_session::config::CrateType::Executable))
    {
        let cn = tcx.crate_name(rustc_hir::def_id::LOCAL_CRATE);
        let pre = format!("{}::", cn.as_str());
        if let Some(rest) = s.strip_prefix(&pre) {
            return format!("{}[bin]::{}", cn.as_str(), rest);
        }
    }
    s
}

fn span_info(tcx: TyCtxt<'_>, sp: Span) -> (String, usize, usize, bool) {
    let sm = tcx.sess.source_map();
    let lo = sm.lookup_char_pos(sp.lo());
    let hi = sm.lookup_char_pos(sp.hi());
    let file = match &lo.file.name {
        rustc_span::FileName::Real(r) => match r.local_path() {
            Some(p) => p.to_string_lossy().to_string(),
            None => format!("{:?}", lo.file.name),
        },
        other => format!("{:?}", other),
    };
    (file, lo.line, hi.line, sp.from_expansion())
}

/// Line of the outermost (user-written) call site of a span.
fn user_line(tcx: TyCtxt<'_>, sp: Span) -> usize {
    let sp = sp.source_callsite();
    tcx.sess.source_map().lookup_char_pos(sp.lo()).line
}

fn adts_in_ty<'tcx>(tcx: TyCtxt<'tcx>, t: Ty<'tcx>, out: &mut Vec<String>) {
    for ga in t.walk() {
        if let Some(t) = ga.as_type() {
            if let ty::Adt(def, _) = t.kind() {
                let s = dp(tcx, def.did());
                if !out.contains(&s) {
                    out.push(s);
                }
            }
        }
    }
}

fn ty_json<'tcx>(tcx: TyCtxt<'tcx>, t: Ty<'tcx>) -> J {
    let mut o = vec![("s".to_string(), J::s(format!("{}", t)))];
    let p = t.peel_refs();
    match p.kind() {
        ty::Adt(def, _) => o.push(("adt".into(), J::s(dp(tcx, def.did())))),
        ty::Closure(d, _) | ty::Coroutine(d, _) | ty::CoroutineClosure(d, _) => {
            o.push(("closure".into(), J::s(dp(tcx, *d))))
        }
        ty::FnDef(d, _) => o.push(("fndef".into(), J::s(dp(tcx, *d)))),
        ty::Param(_) => o.push(("param".into(), J::Bool(true))),
        _ => {}
    }
    J::Obj(o)
}

struct Ctx<'a, 'tcx> {
    tcx: TyCtxt<'tcx>,
    body: &'a Body<'tcx>,
    env: TypingEnv<'tcx>,
}

impl<'a, 'tcx> Ctx<'a, 'tcx> {
    fn place(&self, p: &Place<'tcx>) -> J {
        let tcx = self.tcx;
        let mut pt = mir::PlaceTy::from_ty(self.body.local_decls[p.local].ty);
        let mut proj = Vec::new();
        for elem in p.projection.iter() {
            let j = match elem {
                ProjectionElem::Deref => J::s("deref"),
                ProjectionElem::Field(f, _) => {
                    let mut o = vec![("field_idx".to_string(), J::Num(f.as_usize() as i128))];
                    match pt.ty.kind() {
                        ty::Adt(def, _) => {
                            let vi = pt.variant_index.unwrap_or(rustc_abi::FIRST_VARIANT);
                            if def.is_enum() || def.is_struct() || def.is_union() {
                                if vi.as_usize() < def.variants().len() {
                                    let v = def.variant(vi);
                                    if f.as_usize() < v.fields.len() {
                                        o.push((
                                            "field".into(),
                                            J::s(v.fields[f].name.as_str().to_string()),
                                        ));
                                    }
                                    if def.is_enum() {
                                        o.push(("variant".into(), J::s(v.name.as_str().to_string())));
                                    }
                                }
                            }
                            o.push(("of".into(), J::s(dp(tcx, def.did()))));
                        }
                        ty::Closure(d, _) | ty::Coroutine(d, _) | ty::CoroutineClosure(d, _) => {
                            o.push(("of_closure".into(), J::s(dp(tcx, *d))));
                        }
                        ty::Tuple(_) => o.push(("tuple".into(), J::Bool(true))),
                        _ => {}
                    }
                    J::Obj(o)
                }
                ProjectionElem::Index(l) => J::obj(vec![("index", J::Num(l.as_usize() as i128))]),
                ProjectionElem::ConstantIndex { offset, from_end, .. } => J::obj(vec![
                    ("const_index", J::Num(offset as i128)),
                    ("from_end", J::Bool(from_end)),
                ]),
                ProjectionElem::Subslice { from, to, from_end } => J::obj(vec![
                    ("subslice", J::Arr(vec![J::Num(from as i128), J::Num(to as i128)])),
                    ("from_end", J::Bool(from_end)),
                ]),
                ProjectionElem::Downcast(name, vi) => J::obj(vec![(
                    "downcast",
                    match name {
                        Some(n) => J::s(n.as_str().to_string()),
                        None => J::Num(vi.as_usize() as i128),
                    },
                )]),
                ProjectionElem::OpaqueCast(_) => J::s("opaque_cast"),
                ProjectionElem::UnwrapUnsafeBinder(_) => J::s("unwrap_binder"),
            };
            proj.push(j);
            pt = pt.projection_ty(tcx, elem);
        }
        J::obj(vec![("l", J::Num(p.local.as_usize() as i128)), ("p", J::Arr(proj))])
    }

    fn fn_const(&self, d: DefId, args: ty::GenericArgsRef<'tcx>) -> Vec<(String, J)> {
        let tcx = self.tcx;
        let mut o: Vec<(String, J)> = vec![("fn".into(), J::s(dp(tcx, d)))];
        let mut substs = Vec::new();
        let mut closures = Vec::new();
        let mut fnitems = Vec::new();
        for a in args.iter() {
            if let Some(t) = a.as_type() {
                substs.push(ty_json(tcx, t));
                for ga in t.walk() {
                    if let Some(t2) = ga.as_type() {
                        match t2.kind() {
                            ty::Closure(cd, _) | ty::Coroutine(cd, _) | ty::CoroutineClosure(cd, _) => {
                                let s = dp(tcx, *cd);
                                if !closures.contains(&s) {
                                    closures.push(s)
                                }
                            }
                            ty::FnDef(fd, fargs) => {
                                let s = self.resolve(*fd, fargs).0;
                                if !fnitems.contains(&s) {
                                    fnitems.push(s)
                                }
                            }
                            _ => {}
                        }
                    }
                }
            } else if let Some(c) = a.as_const() {
                substs.push(J::obj(vec![("s", J::s(format!("{}", c)))]));
            }
        }
        o.push(("substs".into(), J::Arr(substs)));
        if !closures.is_empty() {
            o.push(("closure_args".into(), J::Arr(closures.into_iter().map(J::s).collect())));
        }
        if !fnitems.is_empty() {
            o.push(("fn_args".into(), J::Arr(fnitems.into_iter().map(J::s).collect())));
        }
        let (res, kind) = self.resolve(d, args);
        o.push(("resolved".into(), J::s(res)));
        o.push(("rkind".into(), J::s(kind)));
        o
    }

    /// (resolved callee id, kind)
    fn resolve(&self, d: DefId, args: ty::GenericArgsRef<'tcx>) -> (String, &'static str) {
        let tcx = self.tcx;
        if !matches!(tcx.def_kind(d), DefKind::Fn | DefKind::AssocFn) {
            return (dp(tcx, d), "other");
        }
        let nargs = match tcx
            .try_normalize_erasing_regions(self.env, ty::Unnormalized::new(args))
        {
            Ok(a) => a,
            Err(_) => return (dp(tcx, d), "unnormalized"),
        };
        match Instance::try_resolve(tcx, self.env, d, nargs) {
            Ok(Some(inst)) => {
                let kind = match inst.def {
                    InstanceKind::Item(_) => "item",
                    InstanceKind::Virtual(..) => "virtual",
                    InstanceKind::Intrinsic(_) => "intrinsic",
                    InstanceKind::ClosureOnceShim { .. } => "closure_once_shim",
                    InstanceKind::FnPtrShim(..) => "fnptr_shim",
                    InstanceKind::ReifyShim(..) => "reify_shim",
                    InstanceKind::DropGlue(..) => "drop_glue",
                    InstanceKind::CloneShim(..) => "clone_shim",
                    InstanceKind::VTableShim(..) => "vtable_shim",
                    _ => "shim",
                };
                (dp(tcx, inst.def_id()), kind)
            }
            Ok(None) => (dp(tcx, d), "unresolved"),
            Err(_) => (dp(tcx, d), "error"),
        }
    }

    fn operand(&self, op: &Operand<'tcx>) -> J {
        let tcx = self.tcx;
        match op {
            Operand::Copy(p) => J::obj(vec![("copy", self.place(p))]),
            Operand::Move(p) => J::obj(vec![("move", self.place(p))]),
            Operand::Constant(c) => {
                let cst = c.const_;
                let t = cst.ty();
                let mut o: Vec<(String, J)> = Vec::new();
                if let ty::FnDef(d, args) = t.kind() {
                    o.extend(self.fn_const(*d, args));
                } else {
                    o.push(("ty".into(), J::s(format!("{}", t))));
                    o.push(("s".into(), J::s(format!("{}", cst))));
                    if let mir::Const::Unevaluated(u, _) = cst {
                        if u.promoted.is_none() {
                            o.push(("item".into(), J::s(dp(tcx, u.def))));
                        } else {
                            o.push(("promoted".into(), J::Num(u.promoted.unwrap().as_usize() as i128)));
                        }
                    }
                    if t.is_integral() || t.is_bool() || t.is_char() {
                        if let Some(si) = cst.try_eval_scalar_int(tcx, self.env) {
                            let size = si.size();
                            let v: i128 = if t.is_signed() {
                                si.to_int(size)
                            } else {
                                let u = si.to_uint(size);
                                if u > i128::MAX as u128 { -1 } else { u as i128 }
                            };
                            if !(t.is_signed() == false && si.to_uint(size) > i128::MAX as u128) {
                                o.push(("int".into(), J::Num(v)));
                            } else {
                                o.push(("uint_s".into(), J::s(format!("{}", si.to_uint(size)))));
                            }
                        }
                    }
                }
                J::obj(vec![("const", J::Obj(o))])
            }
            Operand::RuntimeChecks(_) => J::obj(vec![("const", J::obj(vec![("s", J::s("runtime_checks"))]))]),
        }
    }

    fn rvalue(&self, rv: &Rvalue<'tcx>) -> J {
        let tcx = self.tcx;
        match rv {
            Rvalue::Use(op, _) => J::obj(vec![("use", self.operand(op))]),
            Rvalue::Repeat(op, n) => {
                J::obj(vec![("repeat", self.operand(op)), ("n", J::s(format!("{}", n)))])
            }
            Rvalue::Ref(_, bk, p) => J::obj(vec![
                ("ref", self.place(p)),
                (
                    "mut",
                    J::Bool(matches!(bk, mir::BorrowKind::Mut { .. })),
                ),
                ("fake", J::Bool(matches!(bk, mir::BorrowKind::Fake(_)))),
            ]),
            Rvalue::ThreadLocalRef(d) => J::obj(vec![("tls", J::s(dp(tcx, *d)))]),
            Rvalue::RawPtr(k, p) => J::obj(vec![
                ("ref", self.place(p)),
                ("mut", J::Bool(matches!(k, mir::RawPtrKind::Mut))),
                ("raw", J::Bool(true)),
            ]),
            Rvalue::Cast(k, op, t) => J::obj(vec![
                ("cast", self.operand(op)),
                ("kind", J::s(format!("{:?}", k))),
                ("to", J::s(format!("{}", t))),
            ]),
            Rvalue::BinaryOp(op, ab) => J::obj(vec![
                ("bin", J::s(format!("{:?}", op))),
                ("l", self.operand(&ab.0)),
                ("r", self.operand(&ab.1)),
            ]),
            Rvalue::UnaryOp(op, a) => {
                J::obj(vec![("un", J::s(format!("{:?}", op))), ("x", self.operand(a))])
            }
            Rvalue::Discriminant(p) => {
                let pty = p.ty(self.body, tcx).ty;
                let mut o = vec![("discr", self.place(p))];
                if let ty::Adt(def, _) = pty.kind() {
                    o.push(("adt", J::s(dp(tcx, def.did()))));
                }
                J::obj(o)
            }
            Rvalue::Aggregate(kind, ops) => {
                let mut o: Vec<(String, J)> = Vec::new();
                match &**kind {
                    AggregateKind::Array(_) => o.push(("agg".into(), J::s("array"))),
                    AggregateKind::Tuple => o.push(("agg".into(), J::s("tuple"))),
                    AggregateKind::Adt(d, vi, _, _, active) => {
                        o.push(("agg".into(), J::s("adt")));
                        o.push(("adt".into(), J::s(dp(tcx, *d))));
                        let def = tcx.adt_def(*d);
                        let v = def.variant(*vi);
                        o.push(("variant".into(), J::s(v.name.as_str().to_string())));
                        let mut names = Vec::new();
                        if let Some(a) = active {
                            names.push(J::s(v.fields[*a].name.as_str().to_string()));
                        } else {
                            for f in v.fields.iter() {
                                names.push(J::s(f.name.as_str().to_string()));
                            }
                        }
                        o.push(("fields".into(), J::Arr(names)));
                    }
                    AggregateKind::Closure(d, _) => {
                        o.push(("agg".into(), J::s("closure")));
                        o.push(("closure".into(), J::s(dp(tcx, *d))));
                    }
                    AggregateKind::Coroutine(d, _) => {
                        o.push(("agg".into(), J::s("coroutine")));
                        o.push(("closure".into(), J::s(dp(tcx, *d))));
                    }
                    AggregateKind::CoroutineClosure(d, _) => {
                        o.push(("agg".into(), J::s("coroutine_closure")));
                        o.push(("closure".into(), J::s(dp(tcx, *d))));
                    }
                    AggregateKind::RawPtr(..) => o.push(("agg".into(), J::s("rawptr"))),
                }
                o.push(("ops".into(), J::Arr(ops.iter().map(|x| self.operand(x)).collect())));
                J::Obj(o)
            }
            Rvalue::CopyForDeref(p) => J::obj(vec![("use", J::obj(vec![("copy", self.place(p))]))]),
            Rvalue::WrapUnsafeBinder(op, _) => J::obj(vec![("use", self.operand(op))]),
        }
    }

    fn unwind(&self, u: &UnwindAction) -> J {
        match u {
            UnwindAction::Cleanup(b) => J::Num(b.as_usize() as i128),
            _ => J::Null,
        }
    }

    fn bb(b: BasicBlock) -> J {
        J::Num(b.as_usize() as i128)
    }

    fn terminator(&self, t: &mir::Terminator<'tcx>) -> J {
        let tcx = self.tcx;
        let line = user_line(tcx, t.source_info.span);
        let exp = t.source_info.span.from_expansion();
        let mut o: Vec<(String, J)> = Vec::new();
        match &t.kind {
            TerminatorKind::Goto { target } => {
                o.push(("k".into(), J::s("goto")));
                o.push(("to".into(), Self::bb(*target)));
            }
            TerminatorKind::SwitchInt { discr, targets } => {
                o.push(("k".into(), J::s("switch")));
                o.push(("discr".into(), self.operand(discr)));
                let mut ts = Vec::new();
                for (v, b) in targets.iter() {
                    ts.push(J::Arr(vec![J::Num(v as i128), Self::bb(b)]));
                }
                o.push(("targets".into(), J::Arr(ts)));
                o.push(("otherwise".into(), Self::bb(targets.otherwise())));
            }
            TerminatorKind::UnwindResume => o.push(("k".into(), J::s("resume"))),
            TerminatorKind::UnwindTerminate(_) => o.push(("k".into(), J::s("terminate"))),
            TerminatorKind::Return => o.push(("k".into(), J::s("return"))),
            TerminatorKind::Unreachable => o.push(("k".into(), J::s("unreachable"))),
            TerminatorKind::Drop { place, target, unwind, .. } => {
                o.push(("k".into(), J::s("drop")));
                o.push(("place".into(), self.place(place)));
                let pty = place.ty(self.body, tcx).ty;
                o.push(("ty".into(), ty_json(tcx, pty)));
                o.push(("ret".into(), Self::bb(*target)));
                o.push(("unwind".into(), self.unwind(unwind)));
            }
            TerminatorKind::Call { func, args, destination, target, unwind, fn_span, .. } => {
                o.push(("k".into(), J::s("call")));
                o.push(("func".into(), self.operand(func)));
                o.push(("args".into(), J::Arr(args.iter().map(|a| self.operand(&a.node)).collect())));
                o.push(("dst".into(), self.place(destination)));
                o.push(("ret".into(), target.map(Self::bb).unwrap_or(J::Null)));
                o.push(("unwind".into(), self.unwind(unwind)));
                o.push(("fn_line".into(), J::Num(user_line(tcx, *fn_span) as i128)));
            }
            TerminatorKind::TailCall { func, args, .. } => {
                o.push(("k".into(), J::s("call")));
                o.push(("tail".into(), J::Bool(true)));
                o.push(("func".into(), self.operand(func)));
                o.push(("args".into(), J::Arr(args.iter().map(|a| self.operand(&a.node)).collect())));
                o.push(("ret".into(), J::Null));
                o.push(("unwind".into(), J::Null));
            }
            TerminatorKind::Assert { cond, expected, msg, target, unwind } => {
                o.push(("k".into(), J::s("assert")));
                o.push(("cond".into(), self.operand(cond)));
                o.push(("expected".into(), J::Bool(*expected)));
                let m = format!("{:?}", msg);
                let m = m.split('(').next().unwrap_or("").to_string();
                o.push(("msg".into(), J::s(m)));
                o.push(("ret".into(), Self::bb(*target)));
                o.push(("unwind".into(), self.unwind(unwind)));
            }
            TerminatorKind::Yield { value, resume, drop, .. } => {
                o.push(("k".into(), J::s("yield")));
                o.push(("value".into(), self.operand(value)));
                o.push(("ret".into(), Self::bb(*resume)));
                o.push(("drop".into(), drop.map(Self::bb).unwrap_or(J::Null)));
            }
            TerminatorKind::CoroutineDrop => o.push(("k".into(), J::s("coroutine_drop"))),
            TerminatorKind::FalseEdge { real_target, .. } => {
                o.push(("k".into(), J::s("goto")));
                o.push(("to".into(), Self::bb(*real_target)));
                o.push(("false_edge".into(), J::Bool(true)));
            }
            TerminatorKind::FalseUnwind { real_target, .. } => {
                o.push(("k".into(), J::s("goto")));
                o.push(("to".into(), Self::bb(*real_target)));
                o.push(("false_unwind".into(), J::Bool(true)));
            }
            TerminatorKind::InlineAsm { .. } => o.push(("k".into(), J::s("asm"))),
        }
        o.push(("line".into(), J::Num(line as i128)));
        if exp {
            o.push(("exp".into(), J::Bool(true)));
        }
        J::Obj(o)
    }
}

fn body_core<'tcx>(tcx: TyCtxt<'tcx>, ldid: LocalDefId, body: &Body<'tcx>) -> (Vec<J>, Vec<J>, Vec<J>) {
    let did = ldid.to_def_id();
    let env = TypingEnv::post_analysis(tcx, did);
    let cx = Ctx { tcx, body, env };
    let mut names: BTreeMap<usize, String> = BTreeMap::new();
    let mut upvar_dbg: Vec<J> = Vec::new();
    for vdi in body.var_debug_info.iter() {
        if let VarDebugInfoContents::Place(p) = &vdi.value {
            if p.projection.is_empty() {
                names.entry(p.local.as_usize()).or_insert(vdi.name.as_str().to_string());
            } else {
                upvar_dbg.push(J::obj(vec![
                    ("name", J::s(vdi.name.as_str().to_string())),
                    ("place", cx.place(p)),
                ]));
            }
        }
    }
    let mut locals = Vec::new();
    for (l, decl) in body.local_decls.iter_enumerated() {
        let mut o = vec![("ty".to_string(), ty_json(tcx, decl.ty))];
        if let Some(n) = names.get(&l.as_usize()) {
            o.push(("name".into(), J::s(n.clone())));
        }
        if decl.is_user_variable() {
            o.push(("user".into(), J::Bool(true)));
        }
        locals.push(J::Obj(o));
    }
    let mut blocks = Vec::new();
    for (_bb, data) in body.basic_blocks.iter_enumerated() {
        let mut stmts = Vec::new();
        for st in data.statements.iter() {
            match &st.kind {
                StatementKind::Assign(b) => {
                    let (p, rv) = &**b;
                    stmts.push(J::obj(vec![
                        ("dst", cx.place(p)),
                        ("rv", cx.rvalue(rv)),
                        ("line", J::Num(user_line(tcx, st.source_info.span) as i128)),
                    ]));
                }
                StatementKind::SetDiscriminant { place, variant_index } => {
                    stmts.push(J::obj(vec![
                        ("dst", cx.place(place)),
                        ("setdiscr", J::Num(variant_index.as_usize() as i128)),
                        ("line", J::Num(user_line(tcx, st.source_info.span) as i128)),
                    ]));
                }
                _ => {}
            }
        }
        let term = cx.terminator(data.terminator());
        let mut o = vec![("stmts".to_string(), J::Arr(stmts)), ("term".to_string(), term)];
        if data.is_cleanup {
            o.push(("cleanup".into(), J::Bool(true)));
        }
        blocks.push(J::Obj(o));
    }
    (locals, blocks, upvar_dbg)
}

fn body_json<'tcx>(
    tcx: TyCtxt<'tcx>,
    ldid: LocalDefId,
    body: &Body<'tcx>,
    promoted: &rustc_index::IndexVec<mir::Promoted, Body<'tcx>>,
) -> J {
    let did = ldid.to_def_id();
    let (locals, blocks, upvar_dbg) = body_core(tcx, ldid, body);
    let mut proms = Vec::new();
    for pb in promoted.iter() {
        let (l, b, _) = body_core(tcx, ldid, pb);
        proms.push(J::obj(vec![("locals", J::Arr(l)), ("blocks", J::Arr(b))]));
    }
    let (file, lo, hi, exp) = span_info(tcx, body.span);
    let kind = tcx.def_kind(did);
    let mut o: Vec<(String, J)> = vec![
        ("kind".into(), J::s(format!("{:?}", kind))),
        ("file".into(), J::s(file)),
        ("line_lo".into(), J::Num(lo as i128)),
        ("line_hi".into(), J::Num(hi as i128)),
        ("exp".into(), J::Bool(exp)),
        ("argc".into(), J::Num(body.arg_count as i128)),
    ];
    if tcx.is_closure_like(did) {
        o.push(("parent".into(), J::s(dp(tcx, tcx.parent(did)))));
        if tcx.is_coroutine(did) {
            o.push(("coroutine".into(), J::Bool(true)));
        }
    }
    if matches!(kind, DefKind::Fn | DefKind::AssocFn) {
        o.push(("vis".into(), J::s(format!("{:?}", tcx.visibility(did)))));
        let attrs = tcx.codegen_fn_attrs(did);
        if let Some(sym) = attrs.symbol_name {
            o.push(("export_name".into(), J::s(sym.as_str().to_string())));
        }
        if tcx.asyncness(did).is_async() {
            o.push(("async".into(), J::Bool(true)));
        }
        if let Some(imp) = tcx.impl_of_assoc(did) {
            if let Some(tr) = tcx.impl_opt_trait_id(imp) {
                o.push(("impl_trait".into(), J::s(dp(tcx, tr))));
            }
            let st = tcx.type_of(imp).instantiate_identity().skip_norm_wip();
            o.push(("impl_self".into(), ty_json(tcx, st)));
        }
        o.push(("name".into(), J::s(tcx.item_name(did).as_str().to_string())));
    }
    if !upvar_dbg.is_empty() {
        o.push(("upvars".into(), J::Arr(upvar_dbg)));
    }
    o.push(("locals".into(), J::Arr(locals)));
    o.push(("blocks".into(), J::Arr(blocks)));
    if !proms.is_empty() {
        o.push(("promoted".into(), J::Arr(proms)));
    }
    J::Obj(o)
}

impl Cb {
    fn collect_bodies<'tcx>(&mut self, tcx: TyCtxt<'tcx>) {
        for ldid in tcx.hir_body_owners() {
            let did = ldid.to_def_id();
            let kind = tcx.def_kind(did);
            let want = matches!(
                kind,
                DefKind::Fn | DefKind::AssocFn | DefKind::Closure | DefKind::SyntheticCoroutineBody
            );
            if !want {
                continue;
            }
            let (promoted, proms) = tcx.mir_promoted(ldid);
            if promoted.is_stolen() {
                eprintln!("mirfacts: stolen mir_promoted for {}", dp(tcx, did));
                continue;
            }
            let body = promoted.borrow();
            for decl in body.local_decls.iter() {
                for ga in decl.ty.walk() {
                    let Some(t) = ga.as_type() else { continue };
                    if let ty::Adt(def, _) = t.kind() {
                        if def.is_enum() && !def.did().is_local() {
                            let name = dp(tcx, def.did());
                            if !self.ext_enums.contains_key(&name) && def.variants().len() <= 64 {
                                let mut vs = Vec::new();
                                for (vi, v) in def.variants().iter_enumerated() {
                                    let d = def.discriminant_for_variant(tcx, vi).val as i128;
                                    vs.push((v.name.as_str().to_string(), d));
                                }
                                self.ext_enums.insert(name, vs);
                            }
                        }
                    }
                }
            }
            let proms = proms.borrow();
            let j = body_json(tcx, ldid, &body, &proms);
            self.fns.push((dp(tcx, did), j));
        }
    }
}

fn adts_json<'tcx>(tcx: TyCtxt<'tcx>) -> J {
    let mut out = Vec::new();
    for id in tcx.hir_free_items() {
        let did = id.owner_id.to_def_id();
        let kind = tcx.def_kind(did);
        if !matches!(kind, DefKind::Struct | DefKind::Enum | DefKind::Union) {
            continue;
        }
        let def = tcx.adt_def(did);
        let mut variants = Vec::new();
        for (vi, v) in def.variants().iter_enumerated() {
            let mut fields = Vec::new();
            for f in v.fields.iter() {
                let fty = tcx.type_of(f.did).instantiate_identity().skip_norm_wip();
                let mut adts = Vec::new();
                adts_in_ty(tcx, fty, &mut adts);
                fields.push(J::obj(vec![
                    ("name", J::s(f.name.as_str().to_string())),
                    ("ty", J::s(format!("{}", fty))),
                    ("adts", J::Arr(adts.into_iter().map(J::s).collect())),
                    ("vis", J::s(format!("{:?}", f.vis))),
                ]));
            }
            let mut vo = vec![
                ("name", J::s(v.name.as_str().to_string())),
                ("fields", J::Arr(fields)),
            ];
            if def.is_enum() {
                vo.push(("discr", J::Num(def.discriminant_for_variant(tcx, vi).val as i128)));
            }
            variants.push(J::obj(vo));
        }
        let (file, lo, _, _) = span_info(tcx, tcx.def_span(did));
        out.push((
            dp(tcx, did),
            J::obj(vec![
                ("kind", J::s(format!("{:?}", kind))),
                ("variants", J::Arr(variants)),
                ("file", J::s(file)),
                ("line", J::Num(lo as i128)),
            ]),
        ));
    }
    J::Obj(out)
}

fn impls_json<'tcx>(tcx: TyCtxt<'tcx>) -> J {
    let mut out = Vec::new();
    for (tr, impls) in tcx.all_local_trait_impls(()).iter() {
        for imp in impls.iter() {
            let idid = imp.to_def_id();
            let st = tcx.type_of(idid).instantiate_identity().skip_norm_wip();
            let mut fns = Vec::new();
            for item in tcx.associated_items(idid).in_definition_order() {
                if matches!(item.kind, ty::AssocKind::Fn { .. }) {
                    fns.push((item.name().as_str().to_string(), J::s(dp(tcx, item.def_id))));
                }
            }
            let (file, lo, _, exp) = span_info(tcx, tcx.def_span(idid));
            out.push(J::obj(vec![
                ("trait", J::s(dp(tcx, *tr))),
                ("self", ty_json(tcx, st)),
                ("fns", J::Obj(fns)),
                ("file", J::s(file)),
                ("line", J::Num(lo as i128)),
                ("exp", J::Bool(exp)),
            ]));
        }
    }
    J::Arr(out)
}

fn consts_json<'tcx>(tcx: TyCtxt<'tcx>) -> J {
    let mut out = Vec::new();
    for ldid in tcx.hir_body_owners() {
        let did = ldid.to_def_id();
        let kind = tcx.def_kind(did);
        let is_const = matches!(kind, DefKind::Const { .. } | DefKind::AssocConst { .. });
        if !is_const {
            continue;
        }
        let generics = tcx.generics_of(did);
        if generics.count() != 0 {
            continue;
        }
        // skip trait-declared associated consts without a concrete body owner context
        let ty = tcx.type_of(did).instantiate_identity().skip_norm_wip();
        let mut o = vec![("ty".to_string(), J::s(format!("{}", ty)))];
        match tcx.const_eval_poly(did) {
            Ok(val) => {
                let c = mir::Const::Val(val, ty);
                o.push(("s".into(), J::s(format!("{}", c))));
                if ty.is_integral() || ty.is_bool() {
                    if let Some(si) = val.try_to_scalar_int() {
                        let size = si.size();
                        if ty.is_signed() {
                            o.push(("int".into(), J::Num(si.to_int(size))));
                        } else {
                            let u = si.to_uint(size);
                            if u <= i128::MAX as u128 {
                                o.push(("int".into(), J::Num(u as i128)));
                            } else {
                                o.push(("uint_s".into(), J::s(format!("{}", u))));
                            }
                        }
                    }
                }
            }
            Err(_) => {
                o.push(("s".into(), J::s("<eval error>")));
            }
        }
        let (file, lo, _, _) = span_info(tcx, tcx.def_span(did));
        o.push(("file".into(), J::s(file)));
        o.push(("line".into(), J::Num(lo as i128)));
        out.push((dp(tcx, did), J::Obj(o)));
    }
    J::Obj(out)
}

fn coroutines_json<'tcx>(tcx: TyCtxt<'tcx>) -> J {
    let mut out = Vec::new();
    for ldid in tcx.hir_body_owners() {
        let did = ldid.to_def_id();
        if !tcx.is_coroutine(did) {
            continue;
        }
        let body = tcx.optimized_mir(did);
        if let Some(layout) = body.coroutine_layout_raw() {
            let mut saved = Vec::new();
            for (i, st) in layout.field_tys.iter_enumerated() {
                let name = layout.field_names[i].map(|s| s.as_str().to_string());
                let mut adts = Vec::new();
                adts_in_ty(tcx, st.ty, &mut adts);
                saved.push(J::obj(vec![
                    ("ty", ty_json(tcx, st.ty)),
                    ("adts", J::Arr(adts.into_iter().map(J::s).collect())),
                    ("name", name.map(J::s).unwrap_or(J::Null)),
                    ("line", J::Num(user_line(tcx, st.source_info.span) as i128)),
                    ("ignore_for_traits", J::Bool(st.ignore_for_traits)),
                ]));
            }
            out.push((dp(tcx, did), J::Arr(saved)));
        }
    }
    J::Obj(out)
}

impl Callbacks for Cb {
    fn after_expansion<'tcx>(
        &mut self,
        _c: &rustc_interface::interface::Compiler,
        tcx: TyCtxt<'tcx>,
    ) -> Compilation {
        if std::env::var("MIRFACTS_OUT").is_err() {
            return Compilation::Continue;
        }
        rustc_middle::ty::print::with_no_trimmed_paths!(
            rustc_middle::ty::print::with_no_visible_paths!(
                rustc_middle::ty::print::with_resolve_crate_name!(self.collect_bodies(tcx))
            )
        );
        Compilation::Continue
    }

    fn after_analysis<'tcx>(
        &mut self,
        _c: &rustc_interface::interface::Compiler,
        tcx: TyCtxt<'tcx>,
    ) -> Compilation {
        let Ok(outdir) = std::env::var("MIRFACTS_OUT") else {
            return Compilation::Continue;
        };
        if tcx.dcx().has_errors().is_some() {
            return Compilation::Continue;
        }
        let fns = std::mem::take(&mut self.fns);
        let ext_enums = std::mem::take(&mut self.ext_enums);
        let ext_enums_j = J::Obj(
            ext_enums
                .into_iter()
                .map(|(k, vs)| (k, J::Obj(vs.into_iter().map(|(n, d)| (d.to_string(), J::s(n))).collect())))
                .collect(),
        );
        let doc = rustc_middle::ty::print::with_no_trimmed_paths!(
            rustc_middle::ty::print::with_no_visible_paths!(
                rustc_middle::ty::print::with_resolve_crate_name!({
                    let crate_name = tcx.crate_name(rustc_hir::def_id::LOCAL_CRATE).as_str().to_string();
                    let crate_types: Vec<J> = tcx
                        .crate_types()
                        .iter()
                        .map(|t| J::s(format!("{:?}", t)))
                        .collect();
                    let sm = tcx.sess.source_map();
                    let mut files = Vec::new();
                    for f in sm.files().iter() {
                        if let rustc_span::FileName::Real(r) = &f.name {
                            if let Some(p) = r.local_path() {
                                if f.cnum == rustc_hir::def_id::LOCAL_CRATE {
                                    files.push(J::s(p.to_string_lossy().to_string()));
                                }
                            }
                        }
                    }
                    let mut cfgs: Vec<String> = tcx
                        .sess
                        .config
                        .iter()
                        .filter_map(|(k, v)| {
                            let k = k.as_str();
                            if k == "feature" || k == "test" || k == "target_arch" || k.starts_with("dfinity") {
                                Some(match v {
                                    Some(v) => format!("{}={}", k, v.as_str()),
                                    None => k.to_string(),
                                })
                            } else {
                                None
                            }
                        })
                        .collect();
                    cfgs.sort();
                    let meta = J::obj(vec![
                        ("crate", J::s(crate_name.clone())),
                        ("crate_types", J::Arr(crate_types)),
                        ("rustc", J::s(rustc_interface::util::rustc_version_str().unwrap_or("?").to_string())),
                        ("nonce", J::s(std::env::var("VERIF_RUN_NONCE").unwrap_or_default())),
                        ("cfg", J::Arr(cfgs.into_iter().map(J::s).collect())),
                        ("files_read", J::Arr(files)),
                        ("n_bodies", J::Num(fns.len() as i128)),
                        ("cwd", J::s(std::env::current_dir().map(|p| p.to_string_lossy().to_string()).unwrap_or_default())),
                    ]);
                    J::obj(vec![
                        ("meta", meta),
                        ("consts", consts_json(tcx)),
                        ("adts", adts_json(tcx)),
                        ("impls", impls_json(tcx)),
                        ("coroutines", coroutines_json(tcx)),
                        ("ext_enums", ext_enums_j),
                        ("fns", J::Obj(fns)),
                    ])
                })
            )
        );
        let crate_name = tcx.crate_name(rustc_hir::def_id::LOCAL_CRATE).as_str().to_string();
        let kind = if tcx.crate_types().iter().any(|t| matches!(t, rustc_session::config::CrateType::Executable)) {
            "bin"
        } else {
            "lib"
        };
        let is_test = tcx.sess.opts.test;
        let suffix = std::env::var("MIRFACTS_SUFFIX").unwrap_or_default();
        let path = format!(
            "{}/{}.{}{}{}.json",
            outdir,
            crate_name,
            kind,
            if is_test { ".test" } else { "" },
            suffix
        );
        let tmp = format!("{}.tmp{}", path, std::process::id());
        let mut s = String::new();
        doc.write(&mut s);
        std::fs::write(&tmp, s).expect("mirfacts: write");
        std::fs::rename(&tmp, &path).expect("mirfacts: rename");
        Compilation::Continue
    }
}

fn main() {
    let mut args: Vec<String> = std::env::args().collect();
    // Used as RUSTC_WORKSPACE_WRAPPER: argv = [driver, rustc, args...]
    if args.len() > 1 && (args[1].ends_with("rustc") || args[1].contains("/rustc")) {
        args.remove(1);
    }
    let mut cb = Cb { fns: Vec::new(), ext_enums: BTreeMap::new() };
    let code = rustc_driver::catch_with_exit_code(|| rustc_driver::run_compiler(&args, &mut cb));
    std::process::exit(if code == std::process::ExitCode::SUCCESS { 0 } else { 1 });
}
