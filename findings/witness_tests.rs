//! Scratch witnesses for candidate findings. Each test PASSES when the defect is observed.
use crate::{
    api::{get_balance, get_utxos},
    genesis_block, heartbeat, runtime,
    runtime::GetSuccessorsReply,
    state,
    test_utils::{BlockBuilder, TransactionBuilder},
    types::{Address, GetBalanceRequest, GetSuccessorsPartialResponse, GetSuccessorsResponse, GetUtxosRequest},
    with_state, with_state_mut,
};
use ic_btc_interface::{
    GetBlockHeadersRequest, InitConfig, Network, NetworkInRequest, SendTransactionRequest,
    UtxosFilter,
};
use ic_btc_test_utils::random_p2pkh_address;
use ic_btc_types::{into_bitcoin_network, OutPoint};

fn init(threshold: u128) {
    crate::memory::set_memory(ic_stable_structures::DefaultMemoryImpl::default());
    crate::init(InitConfig {
        stability_threshold: Some(threshold),
        network: Some(Network::Regtest),
        ..Default::default()
    });
    crate::runtime::set_performance_counter_step(0);
    crate::runtime::performance_counter_reset();
}

fn insert(b: &ic_btc_types::Block) {
    with_state_mut(|s| state::insert_block(s, b.clone()).unwrap());
}

// F4: heavy short branch vs light long branch: unfiltered get_utxos names a different tip than
// get_blockchain_info / get_balance.
#[test]
fn w_f4_unfiltered_tip_disagrees() {
    init(1_000_000);
    let network = Network::Regtest;
    let addr: Address = random_p2pkh_address(into_bitcoin_network(network)).into();
    let g = genesis_block(network);
    let a1 = BlockBuilder::with_prev_header(g.header())
        .with_transaction(TransactionBuilder::coinbase().with_output(&addr, 777).build())
        .with_difficulty(100)
        .build();
    let b1 = BlockBuilder::with_prev_header(g.header()).with_difficulty(1).build();
    let b2 = BlockBuilder::with_prev_header(b1.header()).with_difficulty(1).build();
    let b3 = BlockBuilder::with_prev_header(b2.header()).with_difficulty(1).build();
    for b in [&a1, &b1, &b2, &b3] {
        insert(b);
    }
    let info = crate::get_blockchain_info();
    assert_eq!(info.height, 1);
    assert_eq!(info.block_hash, a1.block_hash().to_vec());
    let bal = get_balance(GetBalanceRequest { address: addr.to_string(), min_confirmations: None }).unwrap();
    assert_eq!(bal, 777);
    let r = get_utxos(GetUtxosRequest { address: addr.to_string(), filter: None }).unwrap();
    println!("F4: info.height={} utxos.tip_height={} utxos={:?} balance={}", info.height, r.tip_height, r.utxos, bal);
    // Property says tip must be a1 at height 1 with the 777 utxo. Observed defect:
    assert_eq!(r.tip_height, 0);
    assert!(r.utxos.is_empty());
}

// F2: balance(c) != sum(utxos(c)) on a forked state.
#[test]
fn w_f2_balance_vs_utxos_on_fork() {
    init(1_000_000);
    let network = Network::Regtest;
    let addr: Address = random_p2pkh_address(into_bitcoin_network(network)).into();
    let g = genesis_block(network);
    let a1 = BlockBuilder::with_prev_header(g.header())
        .with_transaction(TransactionBuilder::coinbase().with_output(&addr, 500).build())
        .build();
    let a2 = BlockBuilder::with_prev_header(a1.header()).build();
    let a3 = BlockBuilder::with_prev_header(a2.header()).build();
    let b1 = BlockBuilder::with_prev_header(g.header()).build();
    for b in [&a1, &a2, &a3, &b1] {
        insert(b);
    }
    let c = 3;
    let bal = get_balance(GetBalanceRequest { address: addr.to_string(), min_confirmations: Some(c) }).unwrap();
    let r = get_utxos(GetUtxosRequest { address: addr.to_string(), filter: Some(UtxosFilter::MinConfirmations(c)) }).unwrap();
    let sum: u64 = r.utxos.iter().map(|u| u.value).sum();
    println!("F2: balance(c=3)={} sum(utxos(c=3))={} tip_height={}", bal, sum, r.tip_height);
    assert_eq!(bal, 500);
    assert_eq!(sum, 0);
}

// F3: header duplicated at the stable boundary while ingestion is paused.
#[test]
fn w_f3_duplicate_header_while_paused() {
    init(0);
    let network = Network::Regtest;
    let g = genesis_block(network);
    let b1 = BlockBuilder::with_prev_header(g.header()).build();
    let b2 = BlockBuilder::with_prev_header(b1.header()).build();
    insert(&b1);
    insert(&b2);
    let before = crate::api::get_block_headers(GetBlockHeadersRequest { start_height: 0, end_height: None, network: NetworkInRequest::Regtest }).unwrap();
    assert_eq!(before.block_headers.len(), 3);
    // Make every should_time_slice() call exceed the threshold: pause at the first output.
    crate::runtime::set_performance_counter_step(2_000_000_000);
    let r = with_state_mut(state::ingest_stable_blocks_into_utxoset);
    assert_eq!(r, crate::types::Slicing::Paused(()));
    crate::runtime::set_performance_counter_step(0);
    crate::runtime::performance_counter_reset();
    let during = crate::api::get_block_headers(GetBlockHeadersRequest { start_height: 0, end_height: None, network: NetworkInRequest::Regtest }).unwrap();
    println!("F3: headers before={} during paused ingestion={} stable_height={}", before.block_headers.len(), during.block_headers.len(), with_state(|s| s.stable_height()));
    assert_eq!(during.block_headers.len(), 4);
    assert_eq!(during.block_headers[0], during.block_headers[1]);
}

// F6: get_blockchain_info.utxos_length changes between slices.
#[test]
fn w_f6_utxos_length_drifts_mid_ingestion() {
    init(0);
    let network = Network::Regtest;
    let addr: Address = random_p2pkh_address(into_bitcoin_network(network)).into();
    let g = genesis_block(network);
    let mut cb = TransactionBuilder::coinbase();
    for i in 0..10 {
        cb = cb.with_output(&addr, 100 + i);
    }
    let b1 = BlockBuilder::with_prev_header(g.header()).with_transaction(cb.build()).build();
    let b2 = BlockBuilder::with_prev_header(b1.header()).build();
    let b3 = BlockBuilder::with_prev_header(b2.header()).build();
    insert(&b1);
    // ingest genesis fully
    let _ = with_state_mut(state::ingest_stable_blocks_into_utxoset);
    insert(&b2);
    let before = crate::get_blockchain_info().utxos_length;
    // Now b1 is stable-eligible; slice it: allow ~4 items per round.
    crate::runtime::set_performance_counter_step(250_000_000);
    let r = with_state_mut(state::ingest_stable_blocks_into_utxoset);
    crate::runtime::performance_counter_reset();
    let during = crate::get_blockchain_info().utxos_length;
    println!("F6: slicing result={:?} utxos_length before={} during={}", r, before, during);
    crate::runtime::set_performance_counter_step(0);
    assert_eq!(r, crate::types::Slicing::Paused(()));
    assert_ne!(before, during);
    let _ = b3;
}

// F7: utxos_length changes across an upgrade.
#[test]
fn w_f7_utxos_length_changes_across_upgrade() {
    init(1_000_000);
    let network = Network::Regtest;
    let addr: Address = random_p2pkh_address(into_bitcoin_network(network)).into();
    let g = genesis_block(network);
    let b1 = BlockBuilder::with_prev_header(g.header())
        .with_transaction(TransactionBuilder::coinbase().with_output(&addr, 1).with_output(&addr, 2).build())
        .build();
    insert(&b1);
    let before = crate::get_blockchain_info();
    crate::pre_upgrade();
    crate::post_upgrade(None);
    let after = crate::get_blockchain_info();
    println!("F7: before={:?} after={:?}", before, after);
    assert_eq!(before.height, after.height);
    assert_ne!(before.utxos_length, after.utxos_length);
}

// F8: trailing bytes accepted by send_transaction.
#[async_std::test]
async fn w_f8_trailing_bytes_accepted() {
    init(10);
    use bitcoin::consensus::Encodable;
    let tx = bitcoin::Transaction {
        version: bitcoin::transaction::Version(2),
        lock_time: bitcoin::absolute::LockTime::from_consensus(0),
        input: vec![],
        output: vec![],
    };
    let mut buf = vec![];
    tx.consensus_encode(&mut buf).unwrap();
    buf.extend_from_slice(b"garbage after the transaction");
    let r = crate::send_transaction(SendTransactionRequest { network: NetworkInRequest::Regtest, transaction: buf }).await;
    println!("F8: result={:?} count={}", r, with_state(|s| s.metrics.send_transaction_count));
    assert!(r.is_ok());
    assert_eq!(with_state(|s| s.metrics.send_transaction_count), 1);
}

// F9: same tx on two forks at different heights: height reported from first-seen fork.
#[test]
fn w_f9_height_from_other_fork() {
    init(1_000_000);
    let network = Network::Regtest;
    let btc = into_bitcoin_network(network);
    let addr0: Address = random_p2pkh_address(btc).into();
    let addr: Address = random_p2pkh_address(btc).into();
    let g = genesis_block(network);
    let cb = TransactionBuilder::coinbase().with_output(&addr0, 1000).build();
    let c1 = BlockBuilder::with_prev_header(g.header()).with_transaction(cb.clone()).build();
    let t = TransactionBuilder::new().with_input(OutPoint::new(cb.txid(), 0)).with_output(&addr, 1000).build();
    // fork A: T at height 2
    let a2 = BlockBuilder::with_prev_header(c1.header()).with_transaction(t.clone()).build();
    // fork B: T at height 3, longer
    let b2 = BlockBuilder::with_prev_header(c1.header()).build();
    let b3 = BlockBuilder::with_prev_header(b2.header()).with_transaction(t.clone()).build();
    let b4 = BlockBuilder::with_prev_header(b3.header()).build();
    for b in [&c1, &a2, &b2, &b3, &b4] {
        insert(b);
    }
    let r = get_utxos(GetUtxosRequest { address: addr.to_string(), filter: None }).unwrap();
    println!("F9: tip_height={} utxos={:?}", r.tip_height, r.utxos);
    assert_eq!(r.tip_height, 4);
    assert_eq!(r.utxos.len(), 1);
    // true height on the served chain is 3; observed:
    assert_eq!(r.utxos[0].height, 2);
}

// F1: address prefix collision in the stable index.
#[test]
fn w_f1_prefix_collision() {
    init(1);
    let network = Network::Regtest;
    let btc = into_bitcoin_network(network);
    use bitcoin::{Address as BA, WitnessProgram, WitnessVersion};
    // Short address A: P2WPKH with arbitrary 20-byte program.
    let h20 = [0x11u8; 20];
    let a = BA::from_witness_program(WitnessProgram::new(WitnessVersion::V0, &h20).unwrap(), btc);
    let a_str = a.to_string();
    // last 6 chars are the bech32 checksum; convert to 5-bit values.
    const CHARSET: &str = "qpzry9x8gf2tvdw0s3jn54khce6mua7l";
    let chk: Vec<u8> = a_str[a_str.len() - 6..].chars().map(|c| CHARSET.find(c).unwrap() as u8).collect();
    // Build 32-byte program P = h20 || (30 checksum bits) || zeros.
    let mut bits: Vec<u8> = vec![];
    for byte in h20.iter() { for i in (0..8).rev() { bits.push((byte >> i) & 1); } }
    for v in chk.iter() { for i in (0..5).rev() { bits.push((v >> i) & 1); } }
    while bits.len() < 256 { bits.push(0); }
    let mut p = [0u8; 32];
    for (i, b) in bits.iter().enumerate() { p[i / 8] |= b << (7 - (i % 8)); }
    let a_long = BA::from_witness_program(WitnessProgram::new(WitnessVersion::V0, &p).unwrap(), btc);
    let a_long_str = a_long.to_string();
    println!("F1: A={} A'={}", a_str, a_long_str);
    assert!(a_long_str.starts_with(&a_str));
    let a_addr = Address::from_str_checked(&a_str, network).unwrap();
    let a_long_addr = Address::from_str_checked(&a_long_str, network).unwrap();
    let _ = a_addr;
    let g = genesis_block(network);
    let b1 = BlockBuilder::with_prev_header(g.header())
        .with_transaction(TransactionBuilder::coinbase().with_output(&a_long_addr, 4242).build())
        .build();
    let b2 = BlockBuilder::with_prev_header(b1.header()).build();
    let b3 = BlockBuilder::with_prev_header(b2.header()).build();
    for b in [&b1, &b2, &b3] {
        insert(b);
        let _ = with_state_mut(state::ingest_stable_blocks_into_utxoset);
    }
    println!("F1: stable_height={}", with_state(|s| s.stable_height()));
    let r = get_utxos(GetUtxosRequest { address: a_str.clone(), filter: None }).unwrap();
    let bal = get_balance(GetBalanceRequest { address: a_str.clone(), min_confirmations: None }).unwrap();
    println!("F1: utxos(A)={:?} balance(A)={}", r.utxos, bal);
    assert_eq!(bal, 0);
    assert_eq!(r.utxos.len(), 1);
    assert_eq!(r.utxos[0].value, 4242);
    let _ = heartbeat;
}

// N1: threshold raised between slices -> pop() returns None -> unwrap panics.
#[test]
#[should_panic]
fn w_n1_threshold_change_mid_ingestion_traps() {
    init(1);
    let network = Network::Regtest;
    let g = genesis_block(network);
    let b1 = BlockBuilder::with_prev_header(g.header()).build();
    insert(&b1);
    crate::runtime::set_performance_counter_step(2_000_000_000);
    let r = with_state_mut(state::ingest_stable_blocks_into_utxoset);
    assert_eq!(r, crate::types::Slicing::Paused(()));
    crate::runtime::set_performance_counter_step(0);
    crate::runtime::performance_counter_reset();
    crate::set_config(ic_btc_interface::SetConfigRequest { stability_threshold: Some(100), ..Default::default() });
    let _ = with_state_mut(state::ingest_stable_blocks_into_utxoset);
}


// F10 (second entry point): the same threshold change delivered as the post_upgrade config argument
// while the ingestion of a stable block is paused.
#[test]
#[should_panic]
fn w_f10b_threshold_change_by_upgrade_arg_mid_ingestion_traps() {
    init(1);
    let network = Network::Regtest;
    let g = genesis_block(network);
    let b1 = BlockBuilder::with_prev_header(g.header()).build();
    insert(&b1);
    crate::runtime::set_performance_counter_step(2_000_000_000);
    let r = with_state_mut(state::ingest_stable_blocks_into_utxoset);
    assert_eq!(r, crate::types::Slicing::Paused(()));
    crate::runtime::set_performance_counter_step(0);
    crate::runtime::performance_counter_reset();
    crate::pre_upgrade();
    crate::post_upgrade(Some(ic_btc_interface::SetConfigRequest { stability_threshold: Some(100), ..Default::default() }));
    let _ = with_state_mut(state::ingest_stable_blocks_into_utxoset);
}

// ---------------------------------------------------------------------------
// F11 was run as a separate scratch module; it needs these extra imports:
//   use crate::{runtime::{self, GetSuccessorsReply}, types::{GetSuccessorsPartialResponse, GetSuccessorsResponse}};
// F11: Partial reply announcing 0 follow-ups: completion test `k+1 == n` is never true.
#[async_std::test]
#[should_panic(expected = "remaining_follow_ups >= *follow_up_index")]
async fn w_f11_partial_with_zero_followups() {
    crate::memory::set_memory(ic_stable_structures::DefaultMemoryImpl::default());
    crate::init(InitConfig { stability_threshold: Some(10), network: Some(Network::Regtest), ..Default::default() });
    let network = Network::Regtest;
    let block = BlockBuilder::with_prev_header(genesis_block(network).header()).build();
    let mut bytes = vec![];
    block.consensus_encode(&mut bytes).unwrap();
    runtime::set_successors_responses(vec![
        GetSuccessorsReply::Ok(GetSuccessorsResponse::Partial(GetSuccessorsPartialResponse {
            partial_block: bytes.clone(),
            next: vec![],
            remaining_follow_ups: 0,
        })),
        // whatever the source answers to the (unnecessary) follow-up request 0:
        GetSuccessorsReply::Ok(GetSuccessorsResponse::FollowUp(vec![])),
    ]);
    heartbeat().await; // fetch -> Partial(_, 0)
    println!("F11: after 1: {:?}", with_state(|s| s.syncing_state.response_to_process.as_ref().map(|r| match r { state::ResponseToProcess::Partial(p, k) => format!("Partial(rfu={}, k={})", p.remaining_follow_ups, k), state::ResponseToProcess::Complete(_) => "Complete".into() })));
    heartbeat().await; // sends FollowUp(0) although 0 remain
    println!("F11: after 2: {:?}", with_state(|s| s.syncing_state.response_to_process.as_ref().map(|r| match r { state::ResponseToProcess::Partial(p, k) => format!("Partial(rfu={}, k={})", p.remaining_follow_ups, k), state::ResponseToProcess::Complete(_) => "Complete".into() })));
    assert_eq!(with_state(state::main_chain_height), 0); // block still not applied
    heartbeat().await; // asserts remaining_follow_ups >= k -> traps, and would trap on every later round
}

// F12: the stable address index orders outpoints by key bytes (vout little-endian), the unstable side
// by the derived Ord of OutPoint (vout numeric). A page boundary inside a transaction with more than
// 256 outputs to one address, followed by that block's stabilisation before the next page, makes the
// follow-up page repeat some elements and omit others.
#[test]
fn w_f12_page_union_changes_when_boundary_block_stabilises() {
    use std::collections::BTreeSet;
    init(2);
    let network = Network::Regtest;
    let addr: Address = random_p2pkh_address(into_bitcoin_network(network)).into();
    let g = genesis_block(network);
    let mut tx = TransactionBuilder::coinbase();
    for j in 0..1200u64 {
        tx = tx.with_output(&addr, 1_000 + j);
    }
    let b1 = BlockBuilder::with_prev_header(g.header()).with_transaction(tx.build()).build();
    let b2 = BlockBuilder::with_prev_header(b1.header()).build();
    let b3 = BlockBuilder::with_prev_header(b2.header()).build();
    insert(&b1);
    insert(&b2);
    with_state_mut(|s| { state::ingest_stable_blocks_into_utxoset(s); });
    assert_eq!(with_state(|s| s.utxos.next_height()), 1);
    let p1 = get_utxos(GetUtxosRequest { address: addr.to_string(), filter: None }).unwrap();
    assert_eq!(p1.utxos.len(), 1000);
    let next = p1.next_page.clone().unwrap();
    // reference: the follow-up page while block 1 is still unstable
    let p2_before = get_utxos(GetUtxosRequest { address: addr.to_string(), filter: Some(UtxosFilter::Page(next.clone())) }).unwrap();
    // block 3 arrives; block 1 becomes stable and is ingested; block 2 (the pages' tip) is the new anchor
    insert(&b3);
    with_state_mut(|s| { state::ingest_stable_blocks_into_utxoset(s); });
    assert_eq!(with_state(|s| s.utxos.next_height()), 2);
    let p2_after = get_utxos(GetUtxosRequest { address: addr.to_string(), filter: Some(UtxosFilter::Page(next)) }).unwrap();
    assert_eq!(p2_after.tip_block_hash, p1.tip_block_hash);
    let vouts = |u: &Vec<ic_btc_interface::Utxo>| u.iter().map(|x| x.outpoint.vout).collect::<BTreeSet<u32>>();
    let first = vouts(&p1.utxos);
    let before = vouts(&p2_before.utxos);
    let after = vouts(&p2_after.utxos);
    assert_eq!(first.len() + before.len(), 1200);
    assert!(first.is_disjoint(&before));
    let union: BTreeSet<u32> = first.union(&after).cloned().collect();
    println!("F12: page 2 before stabilisation {} utxos, after {} utxos; repeated {} ; missing {}",
        before.len(), p2_after.utxos.len(), first.intersection(&after).count(), 1200 - union.len());
    // the defect: the same page token now yields a different page: elements of page 1 are repeated
    // and others are missing from the union
    assert!(first.intersection(&after).count() > 0);
    assert!(union.len() < 1200);
}
