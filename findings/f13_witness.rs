//! F13 witness: does the anchor advance depend on the ARRIVAL ORDER of two forks
//! whose accumulated difficulty is exactly tied (Testnet/Regtest depth-escape rule)?
//!
//! Tree (identical in both runs, only the push order differs):
//!
//!   anchor (difficulty 1)
//!     |- A            : 1 block,  mock difficulty = L      (accumulated = L, depth 1)
//!     `- B1 .. B_L    : L blocks, mock difficulty 1 each   (accumulated = L, depth L)
//!
//! L is the smallest chain length for which the depth-escape rule would fire for B:
//!   depth(B) >= bound  and  depth(B) - depth(A) >= bound,
//!   bound = testnet_unstable_max_depth_difference(blocks_count = L + 2, stability_threshold).
use crate::{
    blocktree::ChainBlock,
    test_utils::{BlockBuilder, BlockChainBuilder, TestBlocksCache},
    unstable_blocks::{self, testnet_unstable_max_depth_difference, UnstableBlocks},
    UtxoSet,
};
use ic_btc_interface::Network;
use ic_btc_types::{Block, BlockHash};

const STABILITY_THRESHOLD: u32 = 2;

#[derive(Debug, PartialEq, Eq, Clone)]
struct Observed {
    /// `peek` result, as the hash of the returned block (the anchor) or None.
    peek: Option<BlockHash>,
    /// Tip of `get_main_chain` before any pop.
    main_chain_tip: BlockHash,
    /// Length of `get_main_chain` before any pop.
    main_chain_len: usize,
    /// Hash of the new anchor after `pop` (i.e. which child was declared stable), or None.
    advanced_to: Option<BlockHash>,
}

fn run(network: Network, anchor: &Block, first: &[Block], second: &[Block]) -> Observed {
    let utxos = UtxoSet::new(network);
    let cache = TestBlocksCache::new(network);
    let mut ub = UnstableBlocks::new(cache, &utxos, STABILITY_THRESHOLD, anchor.clone(), network);
    for b in first.iter().chain(second.iter()) {
        unstable_blocks::push(&mut ub, &utxos, b.clone()).unwrap();
    }
    let peek = unstable_blocks::peek(&ub).map(|b| *b.block_hash());
    let (main_chain_tip, main_chain_len) = {
        let chain = unstable_blocks::get_main_chain(&ub);
        (*chain.tip().block_hash(), chain.len())
    };
    let advanced_to = unstable_blocks::pop(&mut ub, 0)
        .map(|_| *unstable_blocks::get_main_chain(&ub).first().block_hash());
    Observed {
        peek,
        main_chain_tip,
        main_chain_len,
        advanced_to,
    }
}

/// Smallest L such that a lone long fork of L blocks next to a 1-block sibling
/// satisfies the depth-escape rule (tree has L + 2 blocks in total).
fn minimal_long_fork_len() -> (u32, u64) {
    for l in 1u32..2_000 {
        let bound = testnet_unstable_max_depth_difference(l as usize + 2, STABILITY_THRESHOLD).get();
        if l as u64 >= bound && (l as u64 - 1) >= bound {
            return (l, bound);
        }
    }
    unreachable!()
}

#[test]
fn f13_anchor_advance_must_not_depend_on_fork_arrival_order() {
    let (l, bound) = minimal_long_fork_len();
    println!("F13: stability_threshold={STABILITY_THRESHOLD} L={l} blocks_count={} bound={bound}", l + 2);

    let mut order_dependent: Vec<String> = vec![];
    for network in [Network::Regtest, Network::Testnet] {
        let anchor = BlockBuilder::genesis().build_with_mock_difficulty(1);
        // Fork A: one heavy block.
        let a = vec![BlockBuilder::with_prev_header(anchor.header())
            .build_with_mock_difficulty(l as u128)];
        // Fork B: L light blocks.
        let b = BlockChainBuilder::fork(&anchor, l)
            .with_difficulty(1, 0..)
            .build();
        assert_eq!(b.len(), l as usize);
        assert_ne!(a[0].block_hash(), b[0].block_hash());
        let acc_a: u128 = a.iter().map(|x| x.mock_difficulty.unwrap()).sum();
        let acc_b: u128 = b.iter().map(|x| x.mock_difficulty.unwrap()).sum();
        assert_eq!(acc_a, acc_b, "accumulated difficulties must tie exactly");

        let a_hash = *a[0].block_hash();
        let b_first = *b[0].block_hash();
        let b_tip = *b.last().unwrap().block_hash();
        println!("F13[{network:?}]: anchor={} A={a_hash} B_first={b_first} B_tip={b_tip} acc_A={acc_a} acc_B={acc_b}",
            anchor.block_hash());

        // Order 1: long fork B arrives first, then short heavy fork A.
        let b_then_a = run(network, &anchor, &b, &a);
        // Order 2: short heavy fork A arrives first, then long fork B.
        let a_then_b = run(network, &anchor, &a, &b);
        println!("F13[{network:?}] order B-then-A: {b_then_a:?}");
        println!("F13[{network:?}] order A-then-B: {a_then_b:?}");

        // Control: B strictly heavier by 1 (A = L - 1): no tie, so order must not matter.
        let a_light = vec![BlockBuilder::with_prev_header(anchor.header())
            .build_with_mock_difficulty(l as u128 - 1)];
        let c1 = run(network, &anchor, &b, &a_light);
        let c2 = run(network, &anchor, &a_light, &b);
        println!("F13[{network:?}] control (A=L-1) B-then-A: peek={:?} advanced_to={:?}", c1.peek, c1.advanced_to);
        println!("F13[{network:?}] control (A=L-1) A-then-B: peek={:?} advanced_to={:?}", c2.peek, c2.advanced_to);
        assert_eq!(c1.peek, c2.peek);
        assert_eq!(c1.advanced_to, Some(b_first));
        assert_eq!(c2.advanced_to, Some(b_first));

        // The served main chain is the same in both orders (length tie-break prefers B).
        assert_eq!(b_then_a.main_chain_tip, b_tip);
        assert_eq!(a_then_b.main_chain_tip, b_tip);
        assert_eq!(b_then_a.main_chain_len, l as usize + 1);
        assert_eq!(a_then_b.main_chain_len, l as usize + 1);

        // Order-independence: the very same tree must give the same stability verdict.
        if b_then_a.peek != a_then_b.peek || b_then_a.advanced_to != a_then_b.advanced_to {
            order_dependent.push(format!(
                "[{network:?}] B-then-A: peek={:?} advanced_to={:?} | A-then-B: peek={:?} advanced_to={:?}",
                b_then_a.peek, b_then_a.advanced_to, a_then_b.peek, a_then_b.advanced_to
            ));
        }
    }
    assert_eq!(
        order_dependent,
        Vec::<String>::new(),
        "peek/pop differ by arrival order for the same tree"
    );
}
