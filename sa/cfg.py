"""Per-function control-flow graph primitives on the fact base (DESIGN §3):
DOM, NOPATH, ALLEXITS, arms of a switch reaching a site, loops."""


def succs(fn, bb, unwind=False):
    t = fn.blocks[bb]['term']
    k = t['k']
    out = []
    if k == 'goto':
        out.append(t['to'])
    elif k == 'switch':
        for _, b in t['targets']:
            out.append(b)
        out.append(t['otherwise'])
    elif k in ('call', 'drop', 'assert'):
        if t.get('ret') is not None:
            out.append(t['ret'])
        if unwind and t.get('unwind') is not None:
            out.append(t['unwind'])
    elif k == 'yield':
        out.append(t['ret'])
        if unwind and t.get('drop') is not None:
            out.append(t['drop'])
    # return, resume, unreachable, terminate, coroutine_drop: none
    seen, r = set(), []
    for b in out:
        if b not in seen:
            seen.add(b)
            r.append(b)
    return r


class CFG:
    def __init__(self, fn, unwind=False, pruned=()):
        self.fn = fn
        self.unwind = unwind
        self.n = len(fn.blocks)
        pruned = set(pruned)
        self.succ = [[s for s in succs(fn, i, unwind) if (i, s) not in pruned] for i in range(self.n)]
        self.pred = [[] for _ in range(self.n)]
        for i, ss in enumerate(self.succ):
            for s in ss:
                self.pred[s].append(i)
        self._idom = None
        self._reach = {}
        self._ipdom = None

    # reachability ---------------------------------------------------------------------------
    def reachable_from(self, b, avoid=()):
        """set of blocks reachable from b (b included) without passing through `avoid` blocks."""
        key = (b, tuple(sorted(avoid)))
        r = self._reach.get(key)
        if r is None:
            avoid = set(avoid)
            r = set()
            st = [b]
            while st:
                x = st.pop()
                if x in r or x in avoid:
                    continue
                r.add(x)
                st.extend(self.succ[x])
            self._reach[key] = r
        return r

    def reaches(self, a, b, avoid=()):
        """b reachable from a by a non-empty or empty path (a == b counts)."""
        return b in self.reachable_from(a, avoid)

    def reaches_strict(self, a, b, avoid=()):
        """b reachable from a by a path of at least one edge."""
        for s in self.succ[a]:
            if s not in avoid and b in self.reachable_from(s, avoid):
                return True
        return False

    def entry_reachable(self):
        return self.reachable_from(0)

    # dominators (Cooper-Harvey-Kennedy) ---------------------------------------------------------
    def idom(self):
        if self._idom is not None:
            return self._idom
        order = []
        seen = set()
        st = [(0, iter(self.succ[0]))]
        seen.add(0)
        while st:
            node, it = st[-1]
            adv = False
            for s in it:
                if s not in seen:
                    seen.add(s)
                    st.append((s, iter(self.succ[s])))
                    adv = True
                    break
            if not adv:
                order.append(node)
                st.pop()
        rpo = list(reversed(order))
        idx = {b: i for i, b in enumerate(rpo)}
        idom = {0: 0}
        changed = True

        def intersect(a, b):
            while a != b:
                while idx[a] > idx[b]:
                    a = idom[a]
                while idx[b] > idx[a]:
                    b = idom[b]
            return a

        while changed:
            changed = False
            for b in rpo[1:]:
                new = None
                for p in self.pred[b]:
                    if p in idom:
                        new = p if new is None else intersect(p, new)
                if new is not None and idom.get(b) != new:
                    idom[b] = new
                    changed = True
        self._idom = idom
        return idom

    def dominates(self, a, b):
        """block a dominates block b (a == b counts). Unreachable b: vacuously False."""
        idom = self.idom()
        if b not in idom or a not in idom:
            return False
        x = b
        while True:
            if x == a:
                return True
            if x == 0:
                return False
            x = idom[x]

    # post-dominance w.r.t. a set of exits ------------------------------------------------------
    def exits(self):
        out = []
        for i in range(self.n):
            k = self.fn.blocks[i]['term']['k']
            if k in ('return', 'resume', 'coroutine_drop', 'terminate'):
                out.append(i)
        return out

    def all_paths_pass(self, a, through, exits=None):
        """Every path from block a to any exit block (default: all function exits) passes one of
        the `through` blocks (a itself counts if a in through). Paths that end in `unreachable`
        or diverge (panic without unwind edge) are not exits."""
        through = set(through)
        if a in through:
            return True
        exits = set(self.exits() if exits is None else exits)
        r = self.reachable_from(a, avoid=through)
        return not (r & exits)

    def offending_exit(self, a, through, exits=None):
        through = set(through)
        exits = set(self.exits() if exits is None else exits)
        r = self.reachable_from(a, avoid=through)
        bad = sorted(r & exits)
        return bad[0] if bad else None

    # loops ------------------------------------------------------------------------------------
    def back_edges(self):
        out = []
        for a in range(self.n):
            for b in self.succ[a]:
                if self.dominates(b, a):
                    out.append((a, b))
        return out

    def loop_blocks(self, header):
        """natural loop of header: union over back edges (t -> header)."""
        body = {header}
        for a, b in self.back_edges():
            if b != header:
                continue
            st = [a]
            while st:
                x = st.pop()
                if x in body:
                    continue
                body.add(x)
                st.extend(self.pred[x])
        return body

    def in_loop(self, bb):
        """header of the innermost natural loop containing bb (None if bb is in no loop)"""
        best, size = None, None
        for h in {h for _, h in self.back_edges()}:
            body = self.loop_blocks(h)
            if bb in body and (size is None or len(body) < size):
                best, size = h, len(body)
        return best

    def refusing_targets(self, header, site_bb):
        """successor blocks of switches inside the loop `header` from which site_bb cannot be reached
        without passing the header again (the arms that refuse the current iteration's element),
        excluding arms taken straight from the header's own iterator test."""
        body = self.loop_blocks(header)
        out = []
        for s in sorted(body):
            t = self.fn.blocks[s]['term']
            if t['k'] != 'switch' or not self.reaches(s, site_bb, avoid=(header,)) and s != header:
                continue
            for v, b in list(t['targets']) + [('otherwise', t['otherwise'])]:
                if self.fn.blocks[b]['term']['k'] == 'unreachable':
                    continue
                if not self.reaches(b, site_bb, avoid=(header,)):
                    out.append((s, b))
        return out

    # switches ---------------------------------------------------------------------------------
    def switch_arms_reaching(self, sbb, target_bbs, avoid=()):
        """For switch block sbb: the list of (value|'otherwise', succ, reaches?) triples."""
        t = self.fn.blocks[sbb]['term']
        assert t['k'] == 'switch'
        tb = set(target_bbs)
        out = []
        for v, b in t['targets']:
            out.append((v, b, bool(self.reachable_from(b, avoid) & tb)))
        b = t['otherwise']
        # an `otherwise` arm that is just `unreachable` is not a real arm
        if self.fn.blocks[b]['term']['k'] != 'unreachable':
            out.append(('otherwise', b, bool(self.reachable_from(b, avoid) & tb)))
        return out


def cfg(fn, unwind=False):
    key = ('cfg', unwind)
    c = fn._cache.get(key)
    if c is None:
        c = CFG(fn, unwind)
        fn._cache[key] = c
    return c


def cfg_assuming(prog, fn, name, value):
    """SPEC(F | name = value): the CFG of fn with the switch edges removed that are infeasible when
    the boolean parameter / captured variable called `name` has the constant `value`."""
    key = ('cfg_assume', name, value)
    c = fn._cache.get(key)
    if c is not None:
        return c
    from .expr import switch_info
    pruned = set()
    for i, b in enumerate(fn.blocks):
        t = b['term']
        if t['k'] != 'switch':
            continue
        e, kind, labels, adt = switch_info(prog, fn, i)
        neg = False
        while isinstance(e, tuple) and e[0] == 'un' and e[1] == 'Not':
            e = e[2]
            neg = not neg
        is_it = isinstance(e, tuple) and ((e[0] == 'param' and e[2] == name) or (e[0] == 'upvar' and e[1] == name) or (e[0] == 'var' and e[1] == name))
        if not is_it or kind != 'bool':
            continue
        want = (not value) if neg else value
        for v, tgt in t['targets']:
            lab = labels.get(v, v)
            if lab is not want and lab in (True, False):
                pruned.add((i, tgt))
        if labels.get('otherwise') is not want:
            pruned.add((i, t['otherwise']))
    c = CFG(fn, False, pruned)
    fn._cache[key] = c
    return c
