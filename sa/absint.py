"""Tiny abstract evaluation of condition expressions under a constant-argument assumption
(SPEC(F | p = c), DESIGN §3): constants + a sign domain {nonneg, unknown}. Used only to decide
whether a branch literal is forced true/false when a parameter has a given constant value."""
from .expr import ex, walk, const_val, strip_casts

TRUE, FALSE, UNKNOWN = 'true', 'false', 'unknown'


class Env:
    def __init__(self, prog, assume, preds=()):
        """assume: {variable name: int}; preds: [(pattern, int)] for values identified structurally"""
        self.prog = prog
        self.assume = assume
        self.preds = list(preds)

    def const(self, e, depth=0):
        if not isinstance(e, tuple):
            return None
        for pat, v in self.preds:
            if pat(e):
                return v
        k = e[0]
        if k in ('param',) and e[2] in self.assume:
            return self.assume[e[2]]
        if k == 'upvar' and e[1] in self.assume:
            return self.assume[e[1]]
        if k == 'var' and e[1] in self.assume:
            return self.assume[e[1]]
        if k in ('const', 'item'):
            v = const_val(e)
            return v if isinstance(v, int) else None
        if k == 'cast':
            return self.const(e[1], depth)
        if k == 'call' and not e[2] and depth < 3:
            f = self.prog.fn(e[1], required=False)
            if f is not None:
                r = ex(self.prog, f).local(0)
                if r[0] != 'var':
                    return self.const(r, depth + 1)
            return None
        if k == 'bin' and e[1] in ('Add', 'Sub', 'Mul'):
            a, b = self.const(e[2], depth), self.const(e[3], depth)
            if a is None or b is None:
                return None
            return {'Add': a + b, 'Sub': a - b, 'Mul': a * b}[e[1]]
        return None

    def nonneg(self, e, depth=0):
        """True if e is provably >= 0 (under the documented no-wrap assumption for `as` casts from
        unsigned types to wider/equal signed types)."""
        c = self.const(e, depth)
        if c is not None:
            return c >= 0
        if not isinstance(e, tuple):
            return False
        k = e[0]
        if k == 'len':
            return True
        if k == 'cast':
            to = e[2]
            inner = e[1]
            if to.startswith('u'):
                return True
            return self.unsigned_src(inner) or self.nonneg(inner, depth)
        if k == 'call':
            if e[1] == 'max':
                return any(self.nonneg(a, depth) for a in e[2])
            if e[1] == 'min':
                return all(self.nonneg(a, depth) for a in e[2])
            if e[1].endswith('::len') or e[1].endswith('saturating_sub') and False:
                return True
            f = self.prog.fn(e[1], required=False) if depth < 2 else None
            if f is not None:
                r = ex(self.prog, f).local(0)
                if r[0] != 'var':
                    return self.nonneg(r, depth + 1)
            return False
        if k == 'bin':
            if e[1] in ('Add', 'Mul'):
                return self.nonneg(e[2], depth) and self.nonneg(e[3], depth)
            return False
        return False

    def unsigned_src(self, e):
        # a value whose type is unsigned: parameters/fields are typed by the caller's knowledge; we
        # recognise the shapes used in the repository: depths (u32) and lengths
        return isinstance(e, tuple) and e[0] in ('len',)

    def truth(self, e):
        if not isinstance(e, tuple):
            return UNKNOWN
        if e[0] == 'un' and e[1] == 'Not':
            t = self.truth(e[2])
            return {TRUE: FALSE, FALSE: TRUE}.get(t, UNKNOWN)
        if e[0] == 'bin' and e[1] in ('Lt', 'Le', 'Eq', 'Ne'):
            a, b = self.const(e[2]), self.const(e[3])
            op = e[1]
            if a is not None and b is not None:
                r = {'Lt': a < b, 'Le': a <= b, 'Eq': a == b, 'Ne': a != b}[op]
                return TRUE if r else FALSE
            # one side constant, other side sign-known
            if a is not None and self.nonneg(e[3]):
                if op == 'Le' and a <= 0:
                    return TRUE      # a <= 0 <= b
                if op == 'Lt' and a < 0:
                    return TRUE
            if b is not None and self.nonneg(e[2]):
                if op == 'Lt' and b <= 0:
                    return FALSE     # x >= 0 cannot be < b <= 0
                if op == 'Le' and b < 0:
                    return FALSE
            return UNKNOWN
        return UNKNOWN
