"""Fact base: load the mirfacts JSON files, index functions / call sites / ADTs / impls.

Identifier conventions
  * `fid`   — full function id as printed by rustc (`crate::path::Type::<T>::method`,
              `<Type as Trait>::method`, `parent::{closure#n}`); the bin target of a package is
              marked `crate[bin]::…`.
  * `short` — `norm(fid)`: generic argument lists erased, so rules can name
              `ic_btc_canister::state::GenericState::network` irrespective of parameter names.
"""
import fnmatch, glob, json, os, re
from functools import lru_cache


@lru_cache(maxsize=None)
def norm(s):
    """Erase generic argument lists: `A::<T>::f` -> `A::f`, `Result<T, E>` -> `Result`,
    keeping the `<X as Y>` qualified-path brackets."""
    out = []
    stack = []  # True = kept bracket, False = removed
    removed_depth = 0
    i, n = 0, len(s)
    while i < n:
        c = s[i]
        if c == '<':
            prev = s[i - 1] if i > 0 else ''
            if removed_depth > 0:
                stack.append(False)
                removed_depth += 1
            elif prev == ':' and i >= 2 and s[i - 2] == ':':
                # turbofish `::<...>`: drop it together with the `::`
                del out[-2:]
                stack.append(False)
                removed_depth += 1
            elif prev and (prev.isalnum() or prev in '_>]'):
                stack.append(False)
                removed_depth += 1
            else:
                stack.append(True)
                out.append(c)
        elif c == '>' and not (i > 0 and s[i - 1] == '-'):
            if stack:
                kept = stack.pop()
                if kept:
                    out.append(c)
                else:
                    removed_depth -= 1
            else:
                out.append(c)
        else:
            if removed_depth == 0:
                out.append(c)
        i += 1
    r = ''.join(out)
    r = re.sub(r"::'[a-z_]+\b", "", r)
    return r


# equivalent spellings of one operation (`for x in &v` / `v.iter()`): rules name the canonical one
ALIASES = {
    'core::slice::iter': ('core::slice::iter::into_iter', "<&* alloc::vec::Vec as core::iter::traits::collect::IntoIterator>::into_iter",
                          '<&alloc::vec::Vec as core::iter::traits::collect::IntoIterator>::into_iter'),
}


def const_of(op):
    return op.get('const') if isinstance(op, dict) else None


def place_of(op):
    if not isinstance(op, dict):
        return None
    return op.get('copy') or op.get('move')


class Fn:
    __slots__ = ('id', 'short', 'crate', 'target', 'raw', 'blocks', 'locals', 'kind', 'file', 'line_lo',
                 'line_hi', 'exp', 'argc', 'parent', 'export_name', 'is_async', 'is_coroutine',
                 'impl_trait', 'impl_self', 'name', 'vis', 'upvars', '_cache')

    def __init__(self, fid, raw, crate, target):
        self.id = fid
        self.short = norm(fid)
        self.crate = crate
        self.target = target
        self.raw = raw
        self.blocks = raw['blocks']
        self.locals = raw['locals']
        self.kind = raw['kind']
        self.file = raw['file']
        self.line_lo = raw['line_lo']
        self.line_hi = raw['line_hi']
        self.exp = raw.get('exp', False)
        self.argc = raw['argc']
        self.parent = raw.get('parent')
        self.export_name = raw.get('export_name')
        self.is_async = raw.get('async', False)
        self.is_coroutine = raw.get('coroutine', False)
        self.impl_trait = raw.get('impl_trait')
        self.impl_self = raw.get('impl_self')
        self.name = raw.get('name')
        self.vis = raw.get('vis')
        self.upvars = raw.get('upvars', [])
        self._cache = {}

    def __repr__(self):
        return 'Fn(%s)' % self.short

    def where(self, bb=None):
        if bb is None:
            return '%s:%d' % (self.file, self.line_lo)
        b = self.blocks[bb]
        t = b['term']
        cands = [t.get('fn_line'), t.get('line')] + [st.get('line') for st in reversed(b['stmts'])]
        for c in cands:
            if c and self.line_lo <= c <= self.line_hi:
                return '%s:%d' % (self.file, c)
        return '%s:%d' % (self.file, self.line_lo)

    def local_name(self, l):
        return self.locals[l].get('name')

    def local_ty(self, l):
        return self.locals[l]['ty']['s']

    def local_adt(self, l):
        return self.locals[l]['ty'].get('adt')

    # ---- call sites -------------------------------------------------------------------------
    def calls(self):
        """list of CallSite for every call terminator."""
        c = self._cache.get('calls')
        if c is None:
            c = []
            for i, b in enumerate(self.blocks):
                t = b['term']
                if t['k'] == 'call':
                    c.append(CallSite(self, i, t))
            self._cache['calls'] = c
        return c

    def calls_to(self, *pats):
        return [c for c in self.calls() if c.matches(*pats)]


class CallSite:
    __slots__ = ('fn', 'bb', 't', 'callee', 'callee_generic', 'rkind', 'short', 'gshort')

    def __init__(self, fn, bb, t):
        self.fn = fn
        self.bb = bb
        self.t = t
        c = const_of(t['func'])
        if c and 'fn' in c:
            self.callee = c.get('resolved') or c['fn']
            self.callee_generic = c['fn']
            self.rkind = c.get('rkind')
        else:
            self.callee = None
            self.callee_generic = None
            self.rkind = 'indirect'
        self.short = norm(self.callee) if self.callee else None
        self.gshort = norm(self.callee_generic) if self.callee_generic else None

    @property
    def args(self):
        return self.t['args']

    @property
    def dst(self):
        return self.t.get('dst')

    @property
    def line(self):
        return self.t.get('fn_line') or self.t.get('line')

    @property
    def cleanup(self):
        return self.fn.blocks[self.bb].get('cleanup', False)

    def fconst(self):
        return const_of(self.t['func']) or {}

    def closure_args(self):
        return self.fconst().get('closure_args', [])

    def fn_args(self):
        return self.fconst().get('fn_args', [])

    def substs(self):
        return self.fconst().get('substs', [])

    def matches(self, *pats):
        for p in pats:
            for s in (self.short, self.gshort):
                if s and (s == p or fnmatch.fnmatchcase(s, p)):
                    return True
                if s and p in ALIASES and any(fnmatch.fnmatchcase(s, a) for a in ALIASES[p]):
                    return True
        return False

    def where(self):
        return '%s:%s' % (self.fn.file, self.line)

    def __repr__(self):
        return 'Call(%s -> %s @%s bb%d)' % (self.fn.short, self.short, self.where(), self.bb)


def _tail(s):
    return s.rsplit('::', 1)[-1]


def _moved_items(texts):
    """{new path -> reviewed path} for ADTs and free functions of the reviewed tree (spec/known_functions.json)
    that are missing under their reviewed path while exactly one item unknown to the reviewed tree has the
    same name in the same crate: the item moved to another module (or its module was renamed)."""
    kp = os.path.join(os.path.dirname(os.path.dirname(os.path.abspath(__file__))), 'spec', 'known_functions.json')
    if not os.path.exists(kp):
        return {}
    known = json.load(open(kp))
    out = {}
    have_fn, have_adt = set(), set()
    for t in texts.values():
        d = json.loads(t)
        have_fn.update(norm(k) for k, v in d['fns'].items() if v.get('kind') in ('Fn', 'AssocFn'))
        have_adt.update(k for k in d['adts'] if '<' not in k and '::_::' not in k)
    for kind, have, kn in (('adt', have_adt, set(known.get('adts', []))), ('fn', have_fn, set(known.get('functions', [])))):
        if kind == 'fn':
            # apply the ADT moves first: methods follow their type
            have = {_apply_prefix(h, out) for h in have}
        missing = [k for k in kn if k not in have and '<' not in k]
        extra = [h for h in have if h not in kn and '<' not in h]
        for m in missing:
            c = [e for e in extra if e.split('::')[0] == m.split('::')[0] and _tail(e) == _tail(m)]
            others = [m2 for m2 in missing if m2 != m and m2.split('::')[0] == m.split('::')[0] and _tail(m2) == _tail(m)]
            if len(c) == 1 and not others:
                out[c[0]] = m
    return out


def _apply_prefix(s, moved):
    for a, b in moved.items():
        if s == a or s.startswith(a + '::'):
            return b + s[len(a):]
    return s


class Program:
    def __init__(self, facts_dir, inline=True):
        self.dir = facts_dir
        self.inline_report = None
        self.fns = {}
        self.by_short = {}
        self.adts = {}
        self.impls = []
        self.consts = {}
        self.coroutines = {}
        self.ext_enums = {}
        self.meta = {}
        texts = {}
        for p in sorted(glob.glob(os.path.join(facts_dir, '*.json'))):
            base = os.path.basename(p)
            if base == 'DONE.json':
                continue
            texts[base] = open(p).read()
        self.moved = {}
        if inline:
            self.moved = _moved_items(texts)
            if self.moved:
                # an item that only changed its module path is given its reviewed path back, textually,
                # everywhere in the fact base (ids, types, callees, impls): rules keep their anchors
                pat = re.compile(r'(?<![\w:])(' + '|'.join(re.escape(k) for k in sorted(self.moved, key=len, reverse=True)) + r')(?![\w])')
                texts = {b: pat.sub(lambda m: self.moved[m.group(1)], t) for b, t in texts.items()}
        for base in sorted(texts):
            d = json.loads(texts[base])
            crate = d['meta']['crate']
            target = base[:-5]
            self.meta[target] = d['meta']
            for fid, raw in d['fns'].items():
                f = Fn(fid, raw, crate, target)
                self.fns[fid] = f
                self.by_short.setdefault(f.short, []).append(f)
            for k, v in d['adts'].items():
                v['crate'] = crate
                self.adts[k] = v
            for im in d['impls']:
                im['crate'] = crate
                self.impls.append(im)
            for k, v in d['consts'].items():
                self.consts[k] = v
            for k, v in d['coroutines'].items():
                self.coroutines[k] = v
            for k, v in d.get('ext_enums', {}).items():
                self.ext_enums[k] = v
        self._callers = None
        self._children = None
        if inline:
            from . import inline as _inline
            self.inline_report = _inline.run(self)

    # ---- lookup -----------------------------------------------------------------------------
    def fn(self, pat, required=True):
        """Unique function whose short id equals or globs `pat`."""
        r = self.find(pat)
        if len(r) == 1:
            return r[0]
        if not r and not required:
            return None
        raise LookupError('function pattern %r matched %d functions: %s' % (pat, len(r), [f.short for f in r][:6]))

    def find(self, *pats):
        out = []
        for pat in pats:
            if pat in self.by_short:
                out.extend(self.by_short[pat])
            elif any(ch in pat for ch in '*?['):
                for s, fs in self.by_short.items():
                    if fnmatch.fnmatchcase(s, pat):
                        out.extend(fs)
        seen, res = set(), []
        for f in out:
            if f.id not in seen:
                seen.add(f.id)
                res.append(f)
        return res

    def const(self, path):
        c = self.consts.get(path)
        if c is None:
            raise LookupError('const %s not found' % path)
        return c

    def const_int(self, path):
        c = self.const(path)
        if 'int' not in c:
            raise LookupError('const %s has no integer value (%s)' % (path, c.get('s')))
        return c['int']

    # ---- closures ---------------------------------------------------------------------------
    def children(self, fn):
        """closures / coroutine bodies whose parent is fn."""
        if self._children is None:
            ch = {}
            for f in self.fns.values():
                if f.parent:
                    ch.setdefault(f.parent, []).append(f)
            self._children = ch
        return self._children.get(fn.id, [])

    def descendants(self, fn):
        out = []
        st = [fn]
        while st:
            f = st.pop()
            for c in self.children(f):
                out.append(c)
                st.append(c)
        return out

    def root_of(self, fn):
        while fn.parent and fn.parent in self.fns:
            fn = self.fns[fn.parent]
        return fn

    # ---- call graph -------------------------------------------------------------------------
    def all_calls(self):
        for f in self.fns.values():
            for c in f.calls():
                yield c

    def callers(self, *pats, include_cleanup=False):
        out = []
        for c in self.all_calls():
            if c.matches(*pats) and (include_cleanup or not c.cleanup):
                out.append(c)
        return out

    def impl_fns(self, trait_pat, method):
        """fn ids implementing trait method in the workspace (for dyn / generic calls)."""
        out = []
        for im in self.impls:
            if fnmatch.fnmatchcase(norm(im['trait']), trait_pat) and method in im['fns']:
                out.append(im['fns'][method])
        return out

    def callees_of(self, fn, dyn=True):
        """Resolved workspace callees of fn, including closures it creates or passes along,
        fn items passed as values and (optionally) all workspace impls of unresolved trait
        methods. Returns list of (Fn, via) ."""
        key = ('callees', dyn)
        r = fn._cache.get(key)
        if r is not None:
            return r
        out = {}

        def add(fid, via):
            f = self.fns.get(fid)
            if f is not None and f.id not in out:
                out[f.id] = (f, via)

        for c in fn.calls():
            if c.callee:
                add(c.callee, c)
                if c.rkind in ('unresolved', 'virtual', 'unnormalized') and dyn:
                    # trait method on a type parameter or dyn object: all workspace impls
                    g = c.callee_generic
                    if '::' in g:
                        tr, m = g.rsplit('::', 1)
                        for fid in self.impl_fns(norm(tr), m):
                            add(fid, c)
            for cl in c.closure_args():
                add(cl, c)
            for fa in c.fn_args():
                add(fa, c)
        # closures and fn items built as values inside this function
        for bi, b in enumerate(fn.blocks):
            for st in b['stmts']:
                rv = st.get('rv') or {}
                if rv.get('agg') in ('closure', 'coroutine', 'coroutine_closure'):
                    add(rv['closure'], None)
                for op in _operands_of_rvalue(rv):
                    c = const_of(op)
                    if c and 'fn' in c:
                        add(c.get('resolved') or c['fn'], None)
            t = b['term']
            if t['k'] == 'call':
                for op in t['args']:
                    c = const_of(op)
                    if c and 'fn' in c:
                        add(c.get('resolved') or c['fn'], None)
        r = list(out.values())
        fn._cache[key] = r
        return r

    def reach(self, roots, dyn=True, stop=None):
        """Transitive closure of callees_of from roots (Fn objects). `stop(fn)` prunes."""
        seen = {}
        st = list(roots)
        for f in st:
            seen[f.id] = f
        while st:
            f = st.pop()
            if stop and stop(f):
                continue
            for g, _ in self.callees_of(f, dyn):
                if g.id not in seen:
                    seen[g.id] = g
                    st.append(g)
        return seen

    def call_path(self, roots, target_pred, dyn=True, stop=None):
        """BFS; returns list of Fn from a root to the first function satisfying target_pred."""
        from collections import deque
        prev = {}
        dq = deque()
        for f in roots:
            prev[f.id] = None
            dq.append(f)
        while dq:
            f = dq.popleft()
            if target_pred(f):
                path = []
                cur = f
                while cur is not None:
                    path.append(cur)
                    p = prev[cur.id]
                    cur = p
                return list(reversed(path))
            if stop and stop(f):
                continue
            for g, _ in self.callees_of(f, dyn):
                if g.id not in prev:
                    prev[g.id] = f
                    dq.append(g)
        return None


def _operands_of_rvalue(rv):
    for k in ('use', 'cast', 'x', 'l', 'r', 'repeat'):
        v = rv.get(k)
        if isinstance(v, dict):
            yield v
    for op in rv.get('ops', []) or []:
        yield op
