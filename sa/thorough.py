"""Thorough tier (DESIGN §2.4): configuration matrix + checker-sensitivity corpus.

* configuration matrix — the rules are re-run on the fact base extracted under every cargo feature
  that changes production code; an obligation that is not discharged there but is on the default
  configuration is reported as a violation of the property (key prefixed with the feature).
* sensitivity corpus — every scripted mutant of mutants/corpus.json for the property is applied
  to a scratch copy of the repository (outside /repo and /verif, removed afterwards), facts are
  re-extracted and the rule named by the mutant must report it. A miss means the checker lost
  its teeth: CHECK-BROKEN (exit 2), never a silent pass.
"""
import json, os, re, shutil, subprocess, tempfile
from .extract import extract, CheckBroken, VERIF
from .facts import Program
from .engine import Ctx

FEATURES = ['ic-btc-canister/file_memory', 'ic-btc-canister/mock_time', 'ic-btc-types/mock_difficulty', 'ic-btc-canister/canbench-rs']


def _open(ctx):
    return {(o.rule, o.key): o for o in ctx.obs if o.status != 'discharged'}


def run(ctx, mod, repo):
    base_open = _open(ctx)
    report = {'configs': [], 'mutants': []}
    for feat in FEATURES:
        d, info = extract(repo, features=feat)
        sub = Ctx(ctx.prop, Program(d), 'thorough')
        mod.run(sub)
        new = {k: o for k, o in _open(sub).items() if k not in base_open}
        report['configs'].append({'features': feat, 'obligations': len(sub.obs), 'new_open': sorted('%s:%s' % k for k in new)})
        for (rule, key), o in sorted(new.items()):
            ctx._add(rule, '[features=%s] %s' % (feat, key), o.status, o.site, o.msg)
        if not new:
            ctx.ok('CFG', 'features=' + feat, '', 'all %d obligations have the same verdict under cargo feature %s' % (len(sub.obs), feat), nontrivial=False)
    corpus = json.load(open(os.path.join(VERIF, 'mutants', 'corpus.json')))['mutants'].get(ctx.prop, [])
    if corpus or os.path.isdir(os.path.join(VERIF, 'seeded')) or os.path.isdir(os.path.join(VERIF, 'benign')):
        scratch = tempfile.mkdtemp(prefix='verif-thorough-%s-' % ctx.prop)
        try:
            subprocess.run(['rsync', '-a', '--exclude', 'target', '--exclude', '.git', repo.rstrip('/') + '/', scratch + '/'], check=True)
            misses = []
            for m in corpus:
                path = os.path.join(scratch, m['file'])
                src = open(path).read()
                new_src, n = re.subn(m['regex'], m['replacement'], src, flags=re.M)
                if n != 1:
                    report['mutants'].append({'name': m['name'], 'status': 'stale', 'matches': n})
                    ctx.ok('MUT', 'stale:' + m['name'], m['file'], 'mutant site no longer exists (pattern matched %d times): skipped, not counted' % n, nontrivial=False)
                    continue
                open(path, 'w').write(new_src)
                try:
                    d, info = extract(scratch)
                    sub = Ctx(ctx.prop, Program(d), 'thorough')
                    mod.run(sub)
                    hits = sorted('%s:%s' % k for k, o in _open(sub).items() if k not in base_open and k[0] in m['expect_rules'])
                    anyhit = sorted('%s:%s' % k for k, o in _open(sub).items() if k not in base_open)
                except CheckBroken as e:
                    hits, anyhit = [], ['<does not compile: %s>' % str(e)[-200:]]
                finally:
                    open(path, 'w').write(src)
                report['mutants'].append({'name': m['name'], 'file': m['file'], 'expected_rules': m['expect_rules'], 'reported': hits, 'other_reports': [h for h in anyhit if h not in hits]})
                if hits:
                    ctx.ok('MUT', 'caught:' + m['name'], m['file'], 'mutant `%s` is reported by %s' % (m['name'], hits[:3]), nontrivial=True)
                else:
                    misses.append((m['name'], anyhit))
            # the independently seeded changes confirmed for this property (seeded/<id>/patch.diff) are
            # part of the corpus: each must be reported by at least one rule of this property's check
            sd = os.path.join(VERIF, 'seeded')
            for sid in sorted(os.listdir(sd)) if os.path.isdir(sd) else []:
                mp = os.path.join(sd, sid, 'meta.json')
                pp = os.path.join(sd, sid, 'patch.diff')
                if not (os.path.exists(mp) and os.path.exists(pp)) or json.load(open(mp)).get('property') != ctx.prop:
                    continue
                if subprocess.run(['git', 'apply', '--check', pp], cwd=scratch, capture_output=True).returncode != 0:
                    report['mutants'].append({'name': 'seeded:' + sid, 'status': 'stale'})
                    ctx.ok('MUT', 'stale:seeded:' + sid, '', 'seeded change no longer applies to the current tree: skipped, not counted', nontrivial=False)
                    continue
                subprocess.run(['git', 'apply', pp], cwd=scratch, check=True, capture_output=True)
                try:
                    d, info = extract(scratch)
                    sub = Ctx(ctx.prop, Program(d), 'thorough')
                    mod.run(sub)
                    hits = sorted('%s:%s' % k for k, o in _open(sub).items() if k not in base_open)
                except CheckBroken as e:
                    hits = []
                finally:
                    subprocess.run(['git', 'apply', '-R', pp], cwd=scratch, check=True, capture_output=True)
                report['mutants'].append({'name': 'seeded:' + sid, 'reported': hits})
                if hits:
                    ctx.ok('MUT', 'caught:seeded:' + sid, '', 'seeded change %s is reported by %s' % (sid, hits[:3]), nontrivial=True)
                else:
                    misses.append(('seeded:' + sid, []))
            # behaviour-preserving variants (benign/*.diff: refactorings that keep every property): the
            # check must stay silent on each of them — an alarm here is a defect of the checker
            bd = os.path.join(VERIF, 'benign')
            alarms = []
            for name in sorted(os.listdir(bd)) if os.path.isdir(bd) else []:
                pp = os.path.join(bd, name)
                if not name.endswith('.diff'):
                    continue
                if subprocess.run(['git', 'apply', '--check', pp], cwd=scratch, capture_output=True).returncode != 0:
                    report['mutants'].append({'name': 'benign:' + name, 'status': 'stale'})
                    ctx.ok('BEN', 'stale:' + name, '', 'behaviour-preserving variant no longer applies to the current tree: skipped', nontrivial=False)
                    continue
                subprocess.run(['git', 'apply', pp], cwd=scratch, check=True, capture_output=True)
                try:
                    d, info = extract(scratch)
                    sub = Ctx(ctx.prop, Program(d), 'thorough')
                    mod.run(sub)
                    new = sorted('%s:%s' % k for k, o in _open(sub).items() if k not in base_open)
                except CheckBroken as e:
                    new = ['<does not compile: %s>' % str(e)[-200:]]
                finally:
                    subprocess.run(['git', 'apply', '-R', pp], cwd=scratch, check=True, capture_output=True)
                report['mutants'].append({'name': 'benign:' + name, 'new_open': new})
                if new:
                    alarms.append((name, new[:4]))
                else:
                    ctx.ok('BEN', 'silent:' + name, '', 'no obligation changes its verdict on the behaviour-preserving variant %s' % name, nontrivial=True)
            if alarms:
                raise CheckBroken('the check raises an alarm on behaviour-preserving variant(s): %s' % alarms)
            if misses:
                raise CheckBroken('sensitivity corpus: mutant(s) not reported by the expected rule: %s' % misses)
        finally:
            shutil.rmtree(scratch, ignore_errors=True)
    return report
