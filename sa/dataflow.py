"""WRITERS / READERS and intra-procedural value flow (DESIGN §3)."""
import fnmatch
from .facts import norm, place_of, const_of


class Access:
    __slots__ = ('fn', 'bb', 'line', 'kind', 'place')

    def __init__(self, fn, bb, line, kind, place):
        self.fn, self.bb, self.line, self.kind, self.place = fn, bb, line, kind, place

    def where(self):
        return '%s:%s' % (self.fn.file, self.line)

    def __repr__(self):
        return 'Access(%s %s @%s)' % (self.kind, self.fn.short, self.where())


def _has_field(place, adt_pat, field):
    for e in place['p']:
        if isinstance(e, dict) and e.get('field') == field and 'of' in e:
            if fnmatch.fnmatchcase(norm(e['of']), adt_pat) or norm(e['of']) == adt_pat:
                return True
    return False


def _ends_with_field(place, adt_pat, field):
    projs = [e for e in place['p'] if e != 'deref']
    if not projs:
        return False
    e = projs[-1]
    return isinstance(e, dict) and e.get('field') == field and 'of' in e and (
        fnmatch.fnmatchcase(norm(e['of']), adt_pat) or norm(e['of']) == adt_pat)


def _rvalue_places(rv):
    """(place, how) for every place read by an rvalue; how in {'use','ref','refmut','discr'}"""
    out = []
    for k in ('use', 'cast', 'x', 'l', 'r', 'repeat'):
        v = rv.get(k)
        if isinstance(v, dict):
            p = place_of(v)
            if p:
                out.append((p, 'use'))
    for op in rv.get('ops', []) or []:
        p = place_of(op)
        if p:
            out.append((p, 'use'))
    if 'ref' in rv:
        out.append((rv['ref'], 'refmut' if rv.get('mut') else 'ref'))
    if 'discr' in rv:
        out.append((rv['discr'], 'discr'))
    return out


def accesses(prog, adt_pat, field, fns=None):
    """All reads/writes of field `field` of ADT matching adt_pat in production functions."""
    out = []
    for fn in (fns if fns is not None else prog.fns.values()):
        for bi, b in enumerate(fn.blocks):
            if b.get('cleanup'):
                continue
            for st in b['stmts']:
                d = st['dst']
                if _has_field(d, adt_pat, field):
                    out.append(Access(fn, bi, st.get('line'), 'write', d))
                for p, how in _rvalue_places(st.get('rv') or {}):
                    if _has_field(p, adt_pat, field):
                        out.append(Access(fn, bi, st.get('line'), 'write' if how == 'refmut' else 'read', p))
            t = b['term']
            if t['k'] == 'call':
                if t.get('dst') and _has_field(t['dst'], adt_pat, field):
                    out.append(Access(fn, bi, t.get('line'), 'write', t['dst']))
                for op in t['args']:
                    p = place_of(op)
                    if p and _has_field(p, adt_pat, field):
                        out.append(Access(fn, bi, t.get('line'), 'read', p))
            elif t['k'] == 'switch':
                p = place_of(t['discr'])
                if p and _has_field(p, adt_pat, field):
                    out.append(Access(fn, bi, t.get('line'), 'read', p))
    return out


def writers(prog, adt_pat, field, fns=None):
    return [a for a in accesses(prog, adt_pat, field, fns) if a.kind == 'write']


def readers(prog, adt_pat, field, fns=None):
    return [a for a in accesses(prog, adt_pat, field, fns) if a.kind == 'read']


def aggregates(prog, adt_pat, fns=None):
    """(fn, bb, stmt) for every aggregate construction of the ADT."""
    out = []
    for fn in (fns if fns is not None else prog.fns.values()):
        for bi, b in enumerate(fn.blocks):
            for st in b['stmts']:
                rv = st.get('rv') or {}
                if rv.get('agg') == 'adt' and (fnmatch.fnmatchcase(norm(rv['adt']), adt_pat) or norm(rv['adt']) == adt_pat):
                    out.append((fn, bi, st))
    return out


# ---- forward taint within one function ----------------------------------------------------------
def flow_forward(fn, seeds, through_calls=None):
    """Locals (transitively) data-dependent on the seed locals, flow-insensitively.
    through_calls: predicate(CallSite-like terminator) -> bool deciding whether a call propagates
    from its arguments to its destination (default: every call does)."""
    tainted = set(seeds)
    changed = True

    def mentions(place):
        if place['l'] in tainted:
            return True
        for e in place['p']:
            if isinstance(e, dict) and 'index' in e and e['index'] in tainted:
                return True
        return False

    def op_tainted(op):
        p = place_of(op)
        return p is not None and mentions(p)

    while changed:
        changed = False
        for b in fn.blocks:
            for st in b['stmts']:
                d = st['dst']['l']
                if d in tainted:
                    continue
                rv = st.get('rv') or {}
                hit = any(mentions(p) for p, _ in _rvalue_places(rv))
                if hit:
                    tainted.add(d)
                    changed = True
            t = b['term']
            if t['k'] == 'call' and t.get('dst') is not None:
                d = t['dst']['l']
                if d not in tainted and any(op_tainted(a) for a in t['args']):
                    if through_calls is None or through_calls(t):
                        tainted.add(d)
                        changed = True
    return tainted
