"""Tiny pattern combinators over EXPR trees (DESIGN §3.1). A pattern is a predicate expr -> bool."""
import fnmatch
from .expr import walk, canon, COMMUTATIVE, strip_casts
from .facts import norm


def _g(s, pat):
    return s == pat or fnmatch.fnmatchcase(s, pat)


def anything(e):
    return True


def call(pat, *args):
    pats = pat if isinstance(pat, (list, tuple)) else [pat]

    def p(e):
        if not (isinstance(e, tuple) and e[0] == 'call' and any(_g(e[1], x) for x in pats)):
            return False
        if not args:
            return True
        if len(args) != len(e[2]):
            return False
        if e[1] in ('min', 'max'):
            a = list(e[2])
            return (all(f(x) for f, x in zip(args, a)) or all(f(x) for f, x in zip(args, reversed(a))))
        return all(f(x) for f, x in zip(args, e[2]))
    return p


def field(name, base=None, owner=None):
    def p(e):
        return (isinstance(e, tuple) and e[0] == 'field' and e[2] == name and (base is None or base(e[1]))
                and (owner is None or _g(norm(e[3]), owner)))
    return p


def const(v=None):
    def p(e):
        if not isinstance(e, tuple):
            return False
        if e[0] == 'const':
            return v is None or e[1] == v
        if e[0] == 'item':
            return v is None or e[2] == v
        return False
    return p


def item(name_suffix, v=None):
    def p(e):
        return isinstance(e, tuple) and e[0] == 'item' and e[1].endswith(name_suffix) and (v is None or e[2] == v)
    return p


def param(name=None):
    return lambda e: isinstance(e, tuple) and e[0] == 'param' and (name is None or e[2] == name)


def upvar(name=None):
    return lambda e: isinstance(e, tuple) and e[0] == 'upvar' and (name is None or e[1] == name)


def captured(exk, src_pat):
    """a captured variable of the closure whose Ex is `exk` such that the captured value, as an
    expression of the parent function, matches src_pat (independent of variable names)"""
    def p(e):
        if not (isinstance(e, tuple) and e[0] == 'upvar' and len(e) > 2):
            return False
        src = exk.upvar_source(e[2])
        return src is not None and src_pat(src)
    return p


def var(name=None):
    return lambda e: isinstance(e, tuple) and e[0] == 'var' and (name is None or e[1] == name)


def named(name):
    """a parameter, captured variable or local variable called `name`"""
    return lambda e: isinstance(e, tuple) and ((e[0] == 'param' and e[2] == name) or (e[0] == 'upvar' and e[1] == name) or (e[0] == 'var' and e[1] == name))


def binop(op, l, r):
    """matches the canonical form: Gt/Ge are written as Lt/Le with swapped operands"""
    flip = {'Gt': 'Lt', 'Ge': 'Le'}
    if op in flip:
        op, l, r = flip[op], r, l

    def p(e):
        if not (isinstance(e, tuple) and e[0] == 'bin' and e[1] == op):
            return False
        if l(e[2]) and r(e[3]):
            return True
        return op in COMMUTATIVE and l(e[3]) and r(e[2])
    return p


def unop(op, x):
    return lambda e: isinstance(e, tuple) and e[0] == 'un' and e[1] == op and x(e[2])


def not_(x):
    """matches the canonical negation of something matching x: either Not(x) or, for comparisons,
    the complemented comparison (handled by the caller writing the complemented form)."""
    return lambda e: isinstance(e, tuple) and e[0] == 'un' and e[1] == 'Not' and x(e[2])


def cast(x, to=None):
    return lambda e: isinstance(e, tuple) and e[0] == 'cast' and x(e[1]) and (to is None or e[2] == to)


def maybe_cast(x):
    return lambda e: x(strip_casts(e))


def has(x):
    return lambda e: any(x(s) for s in walk(e))


def is_(x, *variants):
    vs = tuple(sorted(variants))
    return lambda e: isinstance(e, tuple) and e[0] == 'is' and e[2] == vs and x(e[1])


def downcast(variant, base=None):
    return lambda e: isinstance(e, tuple) and e[0] == 'downcast' and e[2] == variant and (base is None or base(e[1]))


def agg(adt_suffix=None, variant=None, **fields):
    def p(e):
        if not (isinstance(e, tuple) and e[0] == 'agg'):
            return False
        if adt_suffix is not None and not (e[2] or '').endswith(adt_suffix):
            return False
        if variant is not None and e[3] != variant:
            return False
        d = dict(e[4])
        for k, f in fields.items():
            k = k.lstrip('_')
            if k not in d or not f(d[k]):
                return False
        return True
    return p


def index(base, idx):
    return lambda e: (isinstance(e, tuple) and ((e[0] == 'index' and base(e[1]) and idx(e[2])) or
                      (e[0] == 'call' and (e[1].endswith('::index') or e[1].endswith('::index_mut')) and len(e[2]) == 2 and base(e[2][0]) and idx(e[2][1]))))


def length(x):
    return lambda e: isinstance(e, tuple) and ((e[0] == 'len' and x(e[1])) or (e[0] == 'call' and e[1].endswith('::len') and len(e[2]) == 1 and x(e[2][0])))


def either(*ps):
    return lambda e: any(p(e) for p in ps)


def both(*ps):
    return lambda e: all(p(e) for p in ps)


def conds_match(conds, pats):
    """every pattern matches at least one condition; returns list of unmatched pattern indices"""
    return [i for i, p in enumerate(pats) if not any(p(c) for c in conds)]


def exactly(conds, pats):
    """conds and pats are in bijection"""
    if len(conds) != len(pats):
        return False
    used = set()
    for p in pats:
        hit = None
        for i, c in enumerate(conds):
            if i not in used and p(c):
                hit = i
                break
        if hit is None:
            return False
        used.add(hit)
    return True
