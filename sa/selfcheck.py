"""Positive-control fixtures (DESIGN §7.1) — populated in sa/fixtures.py; run on every check."""


def run(ctx, mod):
    try:
        from . import fixtures
    except ImportError:
        return
    fixtures.run(ctx, mod)
