"""Bounded inlining of helper functions the rules cannot know (DESIGN §2.2, "follow wrappers").

The rules name functions of the reviewed tree (anchors). A function that did not exist when the
rules were confirmed (spec/known_functions.json lists every workspace function of the reviewed tree,
all feature configurations) cannot be named by any rule: when such a function is a plain,
non-recursive, statically dispatched helper, its MIR body is spliced into each caller (callee locals
and blocks renumbered, parameters bound by assignments, `return` replaced by an assignment to the
call's destination and a jump to the call's return block), up to MAX_ROUNDS levels and MAX_BLOCKS
blocks per caller. The effect is that "extract function" refactorings are analysed as the code they
came from, instead of being reported as an unrecognised shape.

After splicing, a small jump-threading pass specialises the caller's test of a helper's boolean
result per returning path (`a == 0 || f(x) >= c` has two return paths: one constant, one comparison),
so that path conditions see the helper's own conditions instead of an opaque merged variable.

Nothing here changes a function of the reviewed tree that calls only reviewed functions: on the
reviewed tree the pass is the identity (asserted by the self-check `inline:identity-on-known-tree`).
"""
import copy, json, os
from .facts import norm, const_of, place_of

VERIF = os.path.dirname(os.path.dirname(os.path.abspath(__file__)))
MAX_ROUNDS = 3
MAX_BLOCKS = 600
MAX_CALLEE_BLOCKS = 120
BLOCK_KEYS = ('to', 'otherwise', 'ret', 'unwind', 'drop')


def known_functions():
    p = os.path.join(VERIF, 'spec', 'known_functions.json')
    if not os.path.exists(p):
        return None
    return set(json.load(open(p))['functions'])


# ---- generic renumbering of a copied body -------------------------------------------------------
def _remap(x, lo, bo, po):
    """shift local indices by lo, promoted indices by po, inside any fact JSON value"""
    if isinstance(x, list):
        return [_remap(v, lo, bo, po) for v in x]
    if not isinstance(x, dict):
        return x
    if 'p' in x and isinstance(x.get('l'), int) and isinstance(x['p'], list):
        return {'l': x['l'] + lo, 'p': [({**e, 'index': e['index'] + lo} if isinstance(e, dict) and 'index' in e else e) for e in x['p']]}
    out = {}
    for k, v in x.items():
        if k == 'promoted' and isinstance(v, int):
            out[k] = v + po
        else:
            out[k] = _remap(v, lo, bo, po)
    return out


def _remap_term(t, lo, bo, po):
    t = _remap(t, lo, bo, po)
    for k in BLOCK_KEYS:
        if isinstance(t.get(k), int) and not isinstance(t.get(k), bool):
            t[k] = t[k] + bo
    if 'targets' in t:
        t['targets'] = [[v, b + bo] for v, b in t['targets']]
    return t


def _calls_self(g):
    return any(c.callee == g.id for c in g.calls())


def inlinable(prog, g, known, address_taken):
    return (g.kind in ('Fn', 'AssocFn') and g.short not in known and not g.is_async and not g.is_coroutine
            and not g.impl_trait and not g.export_name and not g.exp and g.id not in address_taken
            and len(g.blocks) <= MAX_CALLEE_BLOCKS and not _calls_self(g))


def _splice(f, bi, g):
    t = f.blocks[bi]['term']
    lo, bo = len(f.locals), len(f.blocks)
    po = len(f.raw.get('promoted') or [])
    for loc in g.locals:
        d = copy.deepcopy(loc)
        d['inlined_from'] = g.short
        f.locals.append(d)
    if g.raw.get('promoted'):
        f.raw.setdefault('promoted', [])
        f.raw['promoted'].extend(copy.deepcopy(g.raw['promoted']))
    line = t.get('fn_line') or t.get('line')
    for gb in g.blocks:
        nb = {'stmts': [{**_remap({k: v for k, v in st.items() if k != 'line'}, lo, bo, po), 'line': st.get('line')} for st in gb['stmts']],
              'term': _remap_term(gb['term'], lo, bo, po)}
        if gb.get('cleanup'):
            nb['cleanup'] = True
        nb['inlined_from'] = g.short
        if nb['term']['k'] == 'return':
            if t.get('ret') is None:
                nb['term'] = {'k': 'unreachable', 'line': line}
            else:
                nb['stmts'].append({'dst': copy.deepcopy(t['dst']), 'rv': {'use': {'move': {'l': lo, 'p': []}}}, 'line': line})
                nb['term'] = {'k': 'goto', 'to': t['ret'], 'line': line, 'inline_return': g.short}
        f.blocks.append(nb)
    b = f.blocks[bi]
    for i, a in enumerate(t['args']):
        b['stmts'].append({'dst': {'l': lo + 1 + i, 'p': []}, 'rv': {'use': copy.deepcopy(a)}, 'line': line})
    b['term'] = {'k': 'goto', 'to': bo, 'line': line, 'inline_call': g.short}


def run(prog):
    """returns a report dict; mutates prog in place"""
    known = known_functions()
    rep = {'unknown_functions': [], 'inlined': [], 'removed': [], 'threaded': 0}
    if known is None:
        rep['note'] = 'spec/known_functions.json missing: inlining disabled'
        return rep
    ws = [f for f in prog.fns.values() if f.kind in ('Fn', 'AssocFn')]
    address_taken = set()
    for f in prog.fns.values():
        for c in f.calls():
            address_taken.update(c.fn_args())
        for b in f.blocks:
            for st in b['stmts']:
                for op in ((st.get('rv') or {}).get('ops') or []) + [(st.get('rv') or {}).get('use'), (st.get('rv') or {}).get('cast')]:
                    k = const_of(op) if op else None
                    if k and 'fn' in k:
                        address_taken.add(k.get('resolved') or k['fn'])
    cand = {g.id: g for g in ws if inlinable(prog, g, known, address_taken)}
    rep['unknown_functions'] = sorted(g.short for g in ws if g.short not in known)
    if not cand:
        return rep
    touched = set()
    for _ in range(MAX_ROUNDS):
        progress = False
        for f in list(prog.fns.values()):
            for bi in range(len(f.blocks)):
                b = f.blocks[bi]
                t = b['term']
                if t['k'] != 'call' or b.get('cleanup') or len(f.blocks) > MAX_BLOCKS:
                    continue
                c = const_of(t['func'])
                if not c or 'fn' not in c or c.get('rkind') not in ('item', 'resolved', None):
                    continue
                gid = c.get('resolved') or c['fn']
                g = cand.get(gid)
                if g is None or g.id == f.id:
                    continue
                _splice(f, bi, g)
                f._cache.clear()
                touched.add(f.id)
                rep['inlined'].append('%s <- %s' % (f.short, g.short))
                progress = True
        if not progress:
            break
    # a helper with no remaining call site is dead: remove it, hand its closures to its (first) caller
    prog._callers = None
    remaining = set()
    for f in prog.fns.values():
        if f.id in cand:
            continue
        for c in f.calls():
            if c.callee in cand:
                remaining.add(c.callee)
    first_caller = {}
    for line in rep['inlined']:
        fs, gs = line.split(' <- ')
        first_caller.setdefault(gs, fs)
    for gid, g in cand.items():
        if gid in remaining or g.short not in first_caller:
            continue
        host = prog.by_short.get(first_caller[g.short], [None])[0]
        for k in prog.fns.values():
            if k.parent == gid and host is not None:
                k.parent = host.id
        del prog.fns[gid]
        prog.by_short[g.short] = [x for x in prog.by_short.get(g.short, []) if x.id != gid]
        if not prog.by_short[g.short]:
            del prog.by_short[g.short]
        rep['removed'].append(g.short)
    prog._children = None
    for fid in touched:
        f = prog.fns.get(fid)
        if f is not None:
            rep['threaded'] += thread_bool_results(f)
            fold_const_switches(f)
            rep['folded'] = rep.get('folded', 0) + fold_switches(prog, f)
            _blank_unreachable(f)
            f._cache.clear()
    return rep


# ---- jump threading of merged boolean results ---------------------------------------------------
def _uses_local(x, l):
    if isinstance(x, list):
        return any(_uses_local(v, l) for v in x)
    if isinstance(x, dict):
        if 'p' in x and isinstance(x.get('l'), int) and isinstance(x['p'], list):
            return x['l'] == l or any(isinstance(e, dict) and e.get('index') == l for e in x['p'])
        return any(_uses_local(v, l) for v in x.values())
    return False


def _subst_local(x, a, b):
    if isinstance(x, list):
        return [_subst_local(v, a, b) for v in x]
    if isinstance(x, dict):
        if 'p' in x and isinstance(x.get('l'), int) and isinstance(x['p'], list):
            return {'l': b if x['l'] == a else x['l'], 'p': [({**e, 'index': b} if isinstance(e, dict) and e.get('index') == a else e) for e in x['p']]}
        return {k: _subst_local(v, a, b) for k, v in x.items()}
    return x


PURE_ON_PATH = ('core::ops::try_trait::Try::branch',)


def _single_succ(f, bi):
    t = f.blocks[bi]['term']
    if t['k'] == 'goto':
        return t['to']
    if t['k'] == 'drop' and t.get('ret') is not None:
        return t['ret']
    if t['k'] == 'call' and t.get('ret') is not None:
        return t['ret']
    return None


def _set_single_succ(t, to):
    if t['k'] == 'goto':
        t['to'] = to
    else:
        t['ret'] = to


def _pure_call(t):
    c = const_of(t['func'])
    return bool(c) and 'fn' in c and norm(c['fn']) in PURE_ON_PATH


def _path_to_switch(f, start):
    """blocks from `start` along goto / drop / `?`-branch edges up to and including the first switch
    (None if anything else is met, or after 12 blocks)"""
    out, cur = [], start
    while len(out) <= 12:
        out.append(cur)
        t = f.blocks[cur]['term']
        if t['k'] == 'switch':
            return out
        if t['k'] in ('goto', 'drop') or (t['k'] == 'call' and _pure_call(t)):
            cur = _single_succ(f, cur)
            if cur is None:
                return None
        else:
            return None
    return None


def _block_defs(b):
    out = {st['dst']['l'] for st in b['stmts'] if not st['dst']['p']}
    t = b['term']
    if t['k'] == 'call' and t.get('dst') and not t['dst']['p']:
        out.add(t['dst']['l'])
    return out


def thread_bool_results(f):
    """Tail duplication for a local R that an inlined helper assigns on several return paths which
    merge (possibly in stages, through drop / goto blocks) before the caller tests it — directly
    (`if helper(..)`) or through `?`: the blocks between each assignment and the test are cloned per
    assignment, with R and the locals defined on the way renamed to fresh single-assignment locals.
    Blocks after the test that still read one of those locals (the payload of `?`) are cloned along
    with it as long as they form a straight line. Path conditions then see the helper's own
    condition, or a constant / known variant that fold_switches removes, instead of a merged
    variable. Applied only if no renamed local is used anywhere else. Returns the number of
    variables specialised."""
    n = 0
    done_locals = set()
    for _ in range(8):
        whole = {}
        for i, b in enumerate(f.blocks):
            for si, st in enumerate(b['stmts']):
                if not st['dst']['p']:
                    whole.setdefault(st['dst']['l'], []).append((i, si))
        progress = False
        for R, defs_ in whole.items():
            if R in done_locals or len(defs_) < 2 or R <= f.argc or not f.locals[R].get('inlined_from'):
                continue
            done_locals.add(R)
            dbs = [d for d, _ in defs_]
            if len(set(dbs)) != len(dbs) or any(f.blocks[d].get('cleanup') for d in dbs):
                continue
            paths, ok = {}, True
            for d, si in defs_:
                b = f.blocks[d]
                nxt = _single_succ(f, d) if b['term']['k'] in ('goto', 'drop') else None
                if nxt is None or any(_uses_local(st, R) for st in b['stmts'][si + 1:]) or _uses_local(b['term'], R):
                    ok = False
                    break
                pth = _path_to_switch(f, nxt)
                if pth is None or any(x in dbs for x in pth):
                    ok = False
                    break
                paths[d] = pth
            if not ok or len({p_[-1] for p_ in paths.values()}) != 1:
                continue
            S = next(iter(paths.values()))[-1]
            region = sorted({x for p_ in paths.values() for x in p_})
            if not any(_uses_local(f.blocks[c], R) for c in region):
                continue
            inner = sorted(set().union(*[_block_defs(f.blocks[c]) for c in region]) - {R})
            ren_src = [R] + inner
            # blocks outside that read a renamed local must form straight lines starting at S's successors
            def reads(b):
                # a scope-end `drop(local)` is not a read that matters to the analysis
                t = b['term']
                body = [b['stmts']] + ([t] if t['k'] != 'drop' else [])
                return any(_uses_local(body, l) for l in ren_src)
            outside = {i for i, b in enumerate(f.blocks) if i not in region and i not in dbs and not b.get('cleanup') and reads(b)}
            tails = {}
            st_ = f.blocks[S]['term']
            marked = set()
            for X in [x for _, x in st_['targets']] + [st_['otherwise']]:
                chain, cur, last = [], X, 0
                while cur is not None and cur not in chain and cur not in region and len(chain) < 8:
                    chain.append(cur)
                    if cur in outside:
                        last = len(chain)
                    cur = _single_succ(f, cur)
                chain = chain[:last]
                tails[X] = chain
                marked.update(chain)
            if outside - marked:
                continue
            # the renamed locals must not be re-defined in the tails
            if any(_block_defs(f.blocks[c]) & set(ren_src) for c in marked):
                continue
            # temporaries defined in the tails are private to each copy too (not the return place)
            tail_defs = sorted(set().union(*[_block_defs(f.blocks[c]) for c in marked]) - {0} - set(ren_src)) if marked else []
            others = [b for i, b in enumerate(f.blocks) if i not in region and i not in marked and not b.get('cleanup')]
            if any(_uses_local([b['stmts']] + ([b['term']] if b['term']['k'] != 'drop' else []), l) for b in others for l in tail_defs):
                continue
            ren_src = ren_src + tail_defs
            for d, si in defs_:
                ren = {}
                for l in ren_src:
                    f.locals.append(copy.deepcopy(f.locals[l]))
                    ren[l] = len(f.locals) - 1

                def clone(c):
                    nb = copy.deepcopy(f.blocks[c])
                    for a, b_ in ren.items():
                        nb = _subst_local(nb, a, b_)
                    nb['threaded_copy_of'] = c
                    f.blocks.append(nb)
                    return len(f.blocks) - 1
                pth = paths[d]
                ids = [clone(c) for c in pth]
                for k in range(len(ids) - 1):
                    _set_single_succ(f.blocks[ids[k]]['term'], ids[k + 1])
                # tails: one private copy per successor of the cloned switch
                sw = f.blocks[ids[-1]]['term']

                def tail_for(X):
                    chain = tails.get(X) or []
                    if not chain:
                        return X
                    cids = [clone(c) for c in chain]
                    for k in range(len(cids) - 1):
                        _set_single_succ(f.blocks[cids[k]]['term'], cids[k + 1])
                    return cids[0]
                sw['targets'] = [[v, tail_for(x)] for v, x in sw['targets']]
                sw['otherwise'] = tail_for(sw['otherwise'])
                db = f.blocks[d]
                db['stmts'][si] = _subst_local(db['stmts'][si], R, ren[R])
                _set_single_succ(db['term'], ids[0])
            n += 1
            progress = True
            break
        if not progress:
            break
    if n:
        _blank_unreachable(f)
    return n


def _blank_unreachable(f):
    """originals of cloned blocks are no longer reachable: empty them, so that they neither define
    locals nor show up as rows of a decision table"""
    seen, st = set(), [0]
    while st:
        x = st.pop()
        if x in seen:
            continue
        seen.add(x)
        t = f.blocks[x]['term']
        for k in BLOCK_KEYS:
            if isinstance(t.get(k), int) and not isinstance(t.get(k), bool):
                st.append(t[k])
        for _, b in t.get('targets', []):
            st.append(b)
    for i, b in enumerate(f.blocks):
        if i not in seen:
            b['stmts'] = []
            b['term'] = {'k': 'unreachable', 'line': b['term'].get('line'), 'dead_after_threading': True}


def fold_switches(prog, f):
    """switches whose discriminant is, after threading, a constant or a known variant become gotos
    (decided on the expression tree, so copies, `!` and `?` on a known Ok/Err are seen through)"""
    from .expr import switch_info
    n = 0
    for _ in range(4):
        changed = False
        f._cache.clear()
        for bi, b in enumerate(f.blocks):
            t = b['term']
            if t['k'] != 'switch' or not (b.get('threaded_copy_of') is not None or b.get('inlined_from')):
                continue
            try:
                e, kind, labels, adt = switch_info(prog, f, bi)
            except Exception:
                continue
            tgt = None
            if kind == 'bool':
                v = None
                x, neg = e, False
                while isinstance(x, tuple) and x[0] == 'un' and x[1] == 'Not':
                    x, neg = x[2], not neg
                if isinstance(x, tuple) and x[0] == 'const' and x[1] in (0, 1, True, False):
                    v = bool(x[1]) != neg
                if v is None:
                    continue
                for val, bb in t['targets']:
                    if bool(val) == v:
                        tgt = bb
                if tgt is None:
                    tgt = t['otherwise']
            elif kind == 'enum' and isinstance(e, tuple) and e[0] == 'agg' and e[1] == 'adt' and e[3]:
                for val, bb in t['targets']:
                    if labels.get(val) == e[3]:
                        tgt = bb
                if tgt is None:
                    if e[3] in labels.values():
                        tgt = t['otherwise']
                    else:
                        continue
            else:
                continue
            b['term'] = {'k': 'goto', 'to': tgt, 'line': t.get('line'), 'folded_switch': True}
            n += 1
            changed = True
        if not changed:
            break
    f._cache.clear()
    return n


def fold_const_switches(f):
    """a switch on a bool that is, through single-assignment copies and `!`, a constant becomes a goto"""
    whole = {}
    for b in f.blocks:
        for st in b['stmts']:
            if not st['dst']['p']:
                whole.setdefault(st['dst']['l'], []).append(st)
        t = b['term']
        if t['k'] == 'call' and t.get('dst') and not t['dst']['p']:
            whole.setdefault(t['dst']['l'], []).append(None)

    def ev(op, depth=0):
        c = const_of(op)
        if c is not None:
            return bool(c['int']) if c.get('ty') == 'bool' and 'int' in c else None
        p = place_of(op)
        if not p or p['p'] or depth > 8 or p['l'] <= f.argc:
            return None
        ds = whole.get(p['l'], [])
        if len(ds) != 1 or ds[0] is None:
            return None
        rv = ds[0].get('rv') or {}
        if 'use' in rv:
            return ev(rv['use'], depth + 1)
        if rv.get('un') == 'Not':
            v = ev(rv['x'], depth + 1)
            return None if v is None else (not v)
        return None
    n = 0
    for b in f.blocks:
        t = b['term']
        if t['k'] != 'switch':
            continue
        v = ev(t['discr'])
        if v is None:
            continue
        tgt = None
        for val, bb in t['targets']:
            if bool(val) == v:
                tgt = bb
        if tgt is None:
            tgt = t['otherwise']
        b['term'] = {'k': 'goto', 'to': tgt, 'line': t.get('line'), 'folded_switch': True}
        n += 1
    return n
