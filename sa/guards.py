"""Inter-procedural gate analysis: which "verifier" calls are established (dominate) on every
call path from an entry function to a sink call site.

Immediate-invocation convention (DESIGN §3): a closure passed to a call executes at that call
site; a closure / coroutine aggregate built in a function executes no earlier than where it is built.
"""
from .cfg import cfg
from .facts import norm


def call_like_sites(prog, fn):
    """(bb, callees[list of Fn], CallSite|None) for every non-cleanup site of fn that transfers
    control into workspace code."""
    out = []
    for c in fn.calls():
        if c.cleanup:
            continue
        cal = []
        if c.callee and c.callee in prog.fns:
            cal.append(prog.fns[c.callee])
        if c.rkind in ('unresolved', 'virtual', 'unnormalized') and c.callee_generic and '::' in c.callee_generic:
            tr, m = c.callee_generic.rsplit('::', 1)
            for fid in prog.impl_fns(norm(tr), m):
                if fid in prog.fns:
                    cal.append(prog.fns[fid])
        for cl in c.closure_args() + c.fn_args():
            if cl in prog.fns:
                cal.append(prog.fns[cl])
        for op in c.args:
            k = op.get('const') if isinstance(op, dict) else None
            if k and 'fn' in k:
                fid = k.get('resolved') or k['fn']
                if fid in prog.fns:
                    cal.append(prog.fns[fid])
        out.append((c.bb, cal, c))
    for bi, b in enumerate(fn.blocks):
        if b.get('cleanup'):
            continue
        for st in b['stmts']:
            rv = st.get('rv') or {}
            if rv.get('agg') in ('closure', 'coroutine', 'coroutine_closure') and rv['closure'] in prog.fns:
                out.append((bi, [prog.fns[rv['closure']]], None))
    return out


class GateAnalysis:
    def __init__(self, prog, verifiers, ctx=None, cfg_of=None):
        """verifiers: {label: [short-id patterns]}"""
        self.prog = prog
        self.verifiers = verifiers
        self.ctx = ctx
        self._must = {}
        self.cfg_of = cfg_of or cfg

    def verifier_label(self, fn):
        import fnmatch
        for lab, pats in self.verifiers.items():
            for p in pats:
                if fn.short == p or fnmatch.fnmatchcase(fn.short, p):
                    return lab
        return None

    def blocks_establishing(self, fn, lab, depth=0):
        """blocks of fn whose call establishes verifier `lab` (direct call, or a call to a
        function all of whose returning paths establish it)."""
        out = []
        for bb, callees, c in call_like_sites(self.prog, fn):
            if c is None:
                continue
            tgt = self.prog.fns.get(c.callee) if c.callee else None
            if tgt is None:
                continue
            if self.verifier_label(tgt) == lab:
                out.append(bb)
            elif depth < 3 and self.must_establish(tgt, lab, depth + 1):
                out.append(bb)
        return out

    def must_establish(self, fn, lab, depth=0):
        key = (fn.id, lab)
        if key in self._must:
            return self._must[key]
        self._must[key] = False
        g = self.cfg_of(fn)
        est = self.blocks_establishing(fn, lab, depth)
        rets = [i for i in range(g.n) if fn.blocks[i]['term']['k'] == 'return']
        r = bool(est) and bool(rets) and g.all_paths_pass(0, est, exits=rets)
        self._must[key] = r
        return r

    def walk(self, root, is_sink, required, stop=None, max_depth=12):
        """DFS from root. Yields (sink CallSite, path [Fn...], missing labels) for every sink call
        site; `required` is the set of labels that must be established there."""
        results = []
        seen = set()

        def visit(fn, established, path):
            key = (fn.id, frozenset(established))
            if key in seen or len(path) > max_depth:
                return
            seen.add(key)
            if self.ctx:
                self.ctx.touch(fn)
            g = self.cfg_of(fn)
            live = g.reachable_from(0)
            est_blocks = {lab: self.blocks_establishing(fn, lab) for lab in self.verifiers}
            for bb, callees, c in call_like_sites(self.prog, fn):
                if bb not in live:
                    continue
                here = set(established)
                for lab, blocks in est_blocks.items():
                    for eb in blocks:
                        if eb != bb and g.dominates(eb, bb):
                            here.add(lab)
                if self.ctx:
                    self.ctx.saw_calls()
                if c is not None and is_sink(c):
                    results.append((c, path + [fn], sorted(set(required) - here)))
                for cal in callees:
                    if self.verifier_label(cal) is not None:
                        continue
                    if stop and stop(cal):
                        continue
                    visit(cal, here, path + [fn])

        visit(root, set(), [])
        return results
