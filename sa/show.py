"""Developer aid: print the CFG of a function with reconstructed expressions.
usage: python3 -m sa.show <short-id glob> [--repo /repo]"""
import sys, json
from .extract import extract
from .facts import Program, const_of, place_of
from .expr import ex, show, switch_info
from .cfg import cfg


def dump(prog, f):
    e = ex(prog, f)
    print('==', f.id, f.where(), 'argc', f.argc, 'export', f.export_name)
    g = cfg(f)
    for i, b in enumerate(f.blocks):
        if b.get('cleanup'):
            continue
        print(' bb%d  preds=%s' % (i, g.pred[i]))
        for st in b['stmts']:
            d = st['dst']
            if 'rv' in st:
                print('    %s = %s' % (show(e.place(d)) if d['p'] else '_%d%s' % (d['l'], ('(' + f.local_name(d['l']) + ')') if f.local_name(d['l']) else ''), show(e.rvalue(st['rv']))))
        t = b['term']
        if t['k'] == 'call':
            print('    _%d = CALL %s   -> bb%s  [%s]' % (t['dst']['l'] if t.get('dst') else -1, show(e.call_expr(t)), t.get('ret'), t.get('fn_line')))
        elif t['k'] == 'switch':
            ex_, kind, labels, adt = switch_info(prog, f, i)
            print('    SWITCH %s %s %s -> %s otherwise bb%s' % (kind, show(ex_), labels, t['targets'], t['otherwise']))
        elif t['k'] == 'drop':
            print('    DROP %s -> bb%s' % (show(e.place(t['place'])), t['ret']))
        elif t['k'] == 'assert':
            print('    ASSERT %s %s -> bb%s' % (t['msg'], show(e.operand(t['cond'])), t['ret']))
        elif t['k'] == 'yield':
            print('    YIELD -> bb%s drop bb%s' % (t['ret'], t.get('drop')))
        else:
            print('    %s %s' % (t['k'].upper(), t.get('to', '')))


if __name__ == '__main__':
    repo = '/repo'
    args = sys.argv[1:]
    if '--repo' in args:
        i = args.index('--repo'); repo = args[i + 1]; del args[i:i + 2]
    d, _ = extract(repo)
    prog = Program(d)
    for pat in args:
        for f in prog.find(pat):
            dump(prog, f)
