"""Rule engine plumbing: obligations, known findings, evidence, replay (DESIGN §2.3)."""
import hashlib, json, os, sys, time

VERIF = os.path.dirname(os.path.dirname(os.path.abspath(__file__)))


class Ob:
    __slots__ = ('prop', 'rule', 'key', 'status', 'site', 'msg', 'detail', 'nontrivial')

    def __init__(self, prop, rule, key, status, site, msg, detail=None, nontrivial=True):
        self.prop, self.rule, self.key, self.status = prop, rule, key, status
        self.site, self.msg, self.detail, self.nontrivial = site, msg, detail, nontrivial

    def ident(self):
        return '%s.%s:%s' % (self.prop, self.rule, self.key)

    def to_json(self):
        d = {'rule': '%s.%s' % (self.prop, self.rule), 'key': self.key, 'status': self.status,
             'site': self.site, 'what': self.msg}
        if self.detail is not None:
            d['detail'] = self.detail
        return d


class Ctx:
    """Collects obligations of one property run; gives rules uniform reporting helpers."""

    def __init__(self, prop, prog, tier='quick'):
        self.prop = prop
        self.prog = prog
        self.tier = tier
        self.obs = []
        self.stats = {'functions_analysed': set(), 'call_sites_inspected': 0, 'edges_inspected': 0}
        self._keys = set()

    # -- reporting --------------------------------------------------------------------------
    def _add(self, rule, key, status, site, msg, detail=None, nontrivial=True):
        k = (rule, key)
        if k in self._keys:
            # keep keys unique: disambiguate deterministically
            i = 2
            while (rule, '%s#%d' % (key, i)) in self._keys:
                i += 1
            key = '%s#%d' % (key, i)
        self._keys.add((rule, key))
        site_s = site.where() if hasattr(site, 'where') else (site or '')
        self.obs.append(Ob(self.prop, rule, key, status, site_s, msg, detail, nontrivial))

    def ok(self, rule, key, site, msg, detail=None, nontrivial=True):
        self._add(rule, key, 'discharged', site, msg, detail, nontrivial)

    def bad(self, rule, key, site, msg, detail=None):
        self._add(rule, key, 'violated', site, msg, detail)

    def unknown(self, rule, key, site, msg, detail=None):
        self._add(rule, key, 'unknown', site, msg, detail)

    def check(self, cond, rule, key, site, msg_ok, msg_bad=None, detail=None):
        if cond:
            self.ok(rule, key, site, msg_ok, detail)
        else:
            self.bad(rule, key, site, msg_bad or ('NOT: ' + msg_ok), detail)
        return cond

    def floor(self, rule, what, found, floor):
        """A rule that matches fewer sites than were confirmed by hand must not pass vacuously."""
        if found >= floor:
            self.ok(rule, 'floor:' + what, '', '%s: %d site(s) analysed (floor %d)' % (what, found, floor), nontrivial=False)
        else:
            self.unknown(rule, 'floor:' + what, '', '%s: only %d site(s) found, %d were confirmed by hand — anchor lost or mechanism removed' % (what, found, floor))

    # -- lookup with fail-closed ------------------------------------------------------------------
    def fn(self, rule, pat):
        try:
            f = self.prog.fn(pat)
            self.stats['functions_analysed'].add(f.id)
            return f
        except LookupError as e:
            self.unknown(rule, 'anchor:' + pat, '', 'anchor function not found or ambiguous: %s' % e)
            return None

    def touch(self, *fns):
        for f in fns:
            if f is not None:
                self.stats['functions_analysed'].add(f.id)

    def saw_calls(self, n=1):
        self.stats['call_sites_inspected'] += n

    def saw_edges(self, n=1):
        self.stats['edges_inspected'] += n


def load_known(path=None):
    path = path or os.path.join(VERIF, 'known_findings.json')
    if not os.path.exists(path):
        return []
    return json.load(open(path)).get('findings', [])


def key_hash(ident):
    return hashlib.sha256(ident.encode()).hexdigest()[:12]


class SubCtx:
    """View of a Ctx that records only selected rules of a sibling property's rule function, under
    this property's own rule labels (several properties share necessary structural conditions)."""

    def __init__(self, ctx, rule_map, note='', key_filter=None):
        self._ctx = ctx
        self._map = rule_map
        self._note = note
        self._kf = key_filter
        self.prog = ctx.prog
        self.prop = ctx.prop
        self.tier = ctx.tier
        self.stats = ctx.stats

    def _r(self, rule, key=None):
        if key is not None and self._kf is not None and not self._kf(key):
            return None
        return self._map.get(rule)

    def ok(self, rule, key, site, msg, detail=None, nontrivial=True):
        if self._r(rule, key):
            self._ctx.ok(self._r(rule), key, site, msg, detail, nontrivial)

    def bad(self, rule, key, site, msg, detail=None):
        if self._r(rule, key):
            self._ctx.bad(self._r(rule), key, site, msg, detail)

    def unknown(self, rule, key, site, msg, detail=None):
        if self._r(rule, key):
            self._ctx.unknown(self._r(rule), key, site, msg, detail)

    def check(self, cond, rule, key, site, msg_ok, msg_bad=None, detail=None):
        if self._r(rule, key):
            return self._ctx.check(cond, self._r(rule), key, site, msg_ok, msg_bad, detail)
        return cond

    def floor(self, rule, what, found, floor):
        if self._r(rule, 'floor:' + what):
            self._ctx.floor(self._r(rule), what, found, floor)

    def fn(self, rule, pat):
        return self._ctx.fn(self._r(rule) or rule, pat)

    def touch(self, *fns):
        self._ctx.touch(*fns)

    def saw_calls(self, n=1):
        self._ctx.saw_calls(n)

    def saw_edges(self, n=1):
        self._ctx.saw_edges(n)
