"""Fact extraction: run the mirfacts driver over /repo's *current working tree* (DESIGN §2.3).

The cache under /verif/.cache/facts/<treehash>/ is only a memo keyed by the full content hash of
every analysis input; any edit to the repository changes the key and forces a re-extraction.
"""
import fcntl, glob, hashlib, json, os, shutil, subprocess, sys, time, uuid

VERIF = os.path.dirname(os.path.dirname(os.path.abspath(__file__)))
CACHE = os.environ.get("VERIF_CACHE", os.path.join(VERIF, ".cache"))
DRIVER_DIR = os.path.join(VERIF, "mirfacts")
DRIVER = os.path.join(DRIVER_DIR, "target", "debug", "mirfacts")

# cargo package name -> directory (production crates; DESIGN §8 lists what is out of scope)
PACKAGES = {
    "ic-btc-canister": "canister",
    "ic-btc-validation": "validation",
    "watchdog": "watchdog",
    "ic-btc-interface": "interface",
    "ic-cdk-bitcoin-canister": "ic-cdk-bitcoin-canister",
    "ic-btc-types": "types",
    "ic-http": "ic-http",
}
EXPECTED_FACT_FILES = [
    "ic_btc_canister.lib", "ic_btc_canister.bin", "ic_btc_validation.lib", "watchdog.lib",
    "watchdog.bin", "ic_btc_interface.lib", "ic_cdk_bitcoin_canister.lib", "ic_btc_types.lib",
    "ic_http.lib",
]


class CheckBroken(Exception):
    pass


def sysroot():
    return subprocess.check_output(["rustc", "+nightly", "--print", "sysroot"], text=True).strip()


def ensure_driver():
    srcs = [os.path.join(DRIVER_DIR, "src", f) for f in os.listdir(os.path.join(DRIVER_DIR, "src"))]
    srcs.append(os.path.join(DRIVER_DIR, "Cargo.toml"))
    if os.path.exists(DRIVER) and all(os.path.getmtime(DRIVER) >= os.path.getmtime(s) for s in srcs):
        return
    env = dict(os.environ, CARGO_NET_OFFLINE="true")
    env.pop("RUSTFLAGS", None)
    env.pop("RUSTC_WORKSPACE_WRAPPER", None)
    r = subprocess.run(["cargo", "+nightly", "build", "--offline"], cwd=DRIVER_DIR, env=env,
                       stdout=subprocess.PIPE, stderr=subprocess.STDOUT, text=True)
    if r.returncode != 0 or not os.path.exists(DRIVER):
        raise CheckBroken("cannot build mirfacts driver:\n" + r.stdout[-4000:])


def source_files(repo):
    """Every analysis input of the analysed packages in the working tree (tracked or not)."""
    out = []
    for pkg, d in PACKAGES.items():
        base = os.path.join(repo, d)
        for root, dirs, files in os.walk(base):
            dirs[:] = [x for x in dirs if x not in ("target", ".git", "node_modules")]
            # the ic-http example canister is a separate workspace member, not analysed
            if "example_canister" in root:
                continue
            for f in files:
                if f.endswith((".rs", ".toml", ".did")):
                    out.append(os.path.join(root, f))
    for f in ("Cargo.toml", "Cargo.lock", "rust-toolchain.toml"):
        p = os.path.join(repo, f)
        if os.path.exists(p):
            out.append(p)
    return sorted(out)


def tree_hash(repo, features=""):
    h = hashlib.sha256()
    for p in source_files(repo):
        h.update(os.path.relpath(p, repo).encode())
        h.update(b"\0")
        with open(p, "rb") as fh:
            h.update(hashlib.sha256(fh.read()).digest())
    with open(DRIVER, "rb") as fh:
        h.update(hashlib.sha256(fh.read()).digest())
    h.update(features.encode())
    return h.hexdigest()[:24]


def _prune(factsroot, keep=16):
    try:
        ds = [os.path.join(factsroot, d) for d in os.listdir(factsroot)]
        ds = [d for d in ds if os.path.isdir(d)]
        ds.sort(key=lambda d: os.path.getmtime(d))
        for d in ds[:-keep]:
            shutil.rmtree(d, ignore_errors=True)
    except OSError:
        pass


def extract(repo="/repo", features="", log=None):
    """Return (facts_dir, info). Re-extracts unless facts for exactly this tree content exist."""
    repo = os.path.abspath(repo)
    os.makedirs(CACHE, exist_ok=True)
    t0 = time.time()
    with open(os.path.join(CACHE, "lock"), "w") as lk:
        fcntl.flock(lk, fcntl.LOCK_EX)
        ensure_driver()
        th = tree_hash(repo, features)
        factsroot = os.path.join(CACHE, "facts")
        out = os.path.join(factsroot, th)
        done = os.path.join(out, "DONE.json")
        if os.path.exists(done):
            info = json.load(open(done))
            info["cached"] = True
            os.utime(out)
            return out, info
        shutil.rmtree(out, ignore_errors=True)
        os.makedirs(out)
        target = os.path.join(CACHE, "target")
        os.makedirs(target, exist_ok=True)
        # cargo must not replay a cached result without invoking the driver
        fp = os.path.join(target, "debug", ".fingerprint")
        if os.path.isdir(fp):
            for pkg in PACKAGES:
                for d in glob.glob(os.path.join(fp, pkg + "-*")):
                    shutil.rmtree(d, ignore_errors=True)
        nonce = uuid.uuid4().hex
        env = dict(os.environ)
        env.update({
            "LD_LIBRARY_PATH": os.path.join(sysroot(), "lib"),
            "RUSTFLAGS": "-Zmir-opt-level=0 -Awarnings",
            "RUSTC_WORKSPACE_WRAPPER": DRIVER,
            "CARGO_TARGET_DIR": target,
            "MIRFACTS_OUT": out,
            "VERIF_RUN_NONCE": nonce,
            "CARGO_NET_OFFLINE": "true",
        })
        env.pop("RUSTC_WRAPPER", None)
        cmd = ["cargo", "+nightly", "check", "--offline"]
        for pkg in PACKAGES:
            cmd += ["-p", pkg]
        if features:
            cmd += ["--features", features]
        r = subprocess.run(cmd, cwd=repo, env=env, stdout=subprocess.PIPE, stderr=subprocess.STDOUT, text=True)
        if r.returncode != 0:
            shutil.rmtree(out, ignore_errors=True)
            raise CheckBroken("cargo check of %s failed (the repository does not build):\n%s" % (repo, r.stdout[-6000:]))
        missing = []
        for stem in EXPECTED_FACT_FILES:
            p = os.path.join(out, stem + ".json")
            if not os.path.exists(p):
                missing.append(stem)
                continue
            with open(p) as fh:
                head = fh.read(4096)
            if nonce not in head:
                missing.append(stem + " (stale nonce)")
        if missing:
            shutil.rmtree(out, ignore_errors=True)
            raise CheckBroken("fact files missing after extraction: %s\n%s" % (missing, r.stdout[-3000:]))
        info = {"treehash": th, "nonce": nonce, "repo": repo, "features": features,
                "extract_wall_s": round(time.time() - t0, 1), "cached": False}
        json.dump(info, open(done, "w"))
        _prune(factsroot)
        return out, info


if __name__ == "__main__":
    repo = sys.argv[1] if len(sys.argv) > 1 else "/repo"
    try:
        d, info = extract(repo)
    except CheckBroken as e:
        print("CHECK-BROKEN:", e)
        sys.exit(2)
    print(d, json.dumps(info))
