"""Small shared helpers for rules."""
import fnmatch
from .cfg import cfg
from .expr import ex, cond_exprs, conditions, show, walk, is_field, const_val, strip_casts

PANIC_PATS = ('core::panicking::*', 'std::panicking::*', 'std::rt::begin_panic*', 'core::option::expect_failed',
              'core::result::unwrap_failed', 'core::option::unwrap_failed', 'std::rt::panic_fmt')


def is_panic_call(c):
    return c.matches(*PANIC_PATS)


def panic_blocks(fn):
    return [c.bb for c in fn.calls() if not c.cleanup and is_panic_call(c)]


def return_blocks(fn):
    return [i for i, b in enumerate(fn.blocks) if b['term']['k'] == 'return' and not b.get('cleanup')]


def glob_any(s, pats):
    return any(s == p or fnmatch.fnmatchcase(s, p) for p in pats)


def the_closure(prog, fn, ctx=None, rule=None):
    """The single closure child of fn (e.g. the body passed to with_state)."""
    ch = [c for c in prog.children(fn) if c.kind == 'Closure']
    if len(ch) == 1:
        return ch[0]
    if ctx is not None:
        ctx.unknown(rule, 'closure-of:' + fn.short, fn, 'expected exactly one closure in %s, found %d' % (fn.short, len(ch)))
    return None


def fmt_conds(conds):
    return ' && '.join(show(c) if c[0] not in ('is', 'switch') else '%s is %s' % (show(c[1]), '|'.join(c[2])) for c in conds) or 'true'


def mentions_field(e, name, owner_pat=None):
    return any(is_field(x, name, owner_pat) for x in walk(e))


def mentions_call(e, *pats):
    return any(isinstance(x, tuple) and x[0] == 'call' and glob_any(x[1], pats) for x in walk(e))
