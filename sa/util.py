"""Small shared helpers for rules."""
import fnmatch
from .cfg import cfg
from .expr import ex, cond_exprs, conditions, show, walk, is_field, const_val, strip_casts

PANIC_PATS = ('core::panicking::*', 'std::panicking::*', 'std::rt::begin_panic*', 'core::option::expect_failed',
              'core::result::unwrap_failed', 'core::option::unwrap_failed', 'std::rt::panic_fmt')


def is_panic_call(c):
    return c.matches(*PANIC_PATS)


def panic_blocks(fn):
    return [c.bb for c in fn.calls() if not c.cleanup and is_panic_call(c)]


def return_blocks(fn):
    return [i for i, b in enumerate(fn.blocks) if b['term']['k'] == 'return' and not b.get('cleanup')]


def glob_any(s, pats):
    return any(s == p or fnmatch.fnmatchcase(s, p) for p in pats)


def the_closure(prog, fn, ctx=None, rule=None):
    """The single closure child of fn (e.g. the body passed to with_state)."""
    ch = [c for c in prog.children(fn) if c.kind == 'Closure']
    if len(ch) == 1:
        return ch[0]
    if ctx is not None:
        ctx.unknown(rule, 'closure-of:' + fn.short, fn, 'expected exactly one closure in %s, found %d' % (fn.short, len(ch)))
    return None


def fmt_conds(conds):
    return ' && '.join(show(c) if c[0] not in ('is', 'switch') else '%s is %s' % (show(c[1]), '|'.join(c[2])) for c in conds) or 'true'


def mentions_field(e, name, owner_pat=None):
    return any(is_field(x, name, owner_pat) for x in walk(e))


def mentions_call(e, *pats):
    return any(isinstance(x, tuple) and x[0] == 'call' and glob_any(x[1], pats) for x in walk(e))


# ---- GATE -------------------------------------------------------------------------------------------
from .dataflow import flow_forward
from .facts import norm, const_of

ADAPTORS = (
    '<* as core::ops::try_trait::Try>::branch', 'core::result::Result::map_err', 'core::result::Result::map',
    'core::result::Result::is_ok', 'core::result::Result::is_err', 'core::option::Option::is_some',
    'core::option::Option::is_none', 'core::result::Result::ok', 'core::option::Option::ok_or',
    'core::option::Option::ok_or_else', 'core::result::Result::and_then', 'core::option::Option::map',
    'core::option::Option::as_ref', 'core::result::Result::as_ref', 'core::option::Option::and_then',
)
SUCCESS = {'Ok', 'Some', 'Continue', 'Ready'}
FAILURE = {'Err', 'None', 'Break'}


def _adaptor_call(t):
    c = const_of(t['func'])
    if not c or 'fn' not in c:
        return False
    s = norm(c.get('resolved') or c['fn'])
    g = norm(c['fn'])
    return glob_any(s, ADAPTORS) or glob_any(g, ADAPTORS)


def _bool_polarity(e):
    """(+1|-1|0): whether `e == true` means success of the underlying Result/Option."""
    pol = 1
    while isinstance(e, tuple):
        if e[0] == 'un' and e[1] == 'Not':
            pol = -pol
            e = e[2]
            continue
        if e[0] == 'call':
            last = e[1].rsplit('::', 1)[-1]
            if last in ('is_ok', 'is_some'):
                return pol
            if last in ('is_err', 'is_none'):
                return -pol
            return 0
        return 0
    return 0


def gate(prog, fn, g_bb, b_bb, success=None, unwind=False):
    """GATE(F; g => b): the outcome of the call in block g_bb gates block b_bb — there is a switch
    S with g dom S dom b whose discriminant derives from g's result and every arm of S from which
    b is reachable is a *success* arm of that result. Returns (ok: bool, why: str)."""
    g = cfg(fn, unwind)
    t = fn.blocks[g_bb]['term']
    if t['k'] != 'call' or t.get('dst') is None:
        return False, 'bb%d is not a call with a result' % g_bb
    if not g.dominates(g_bb, b_bb):
        return False, 'the call does not dominate the site'
    tainted = flow_forward(fn, {t['dst']['l']}, through_calls=_adaptor_call)
    success = set(success) if success else SUCCESS
    idom = g.idom()
    x = b_bb
    chain = []
    while x != g_bb and x != 0:
        x = idom[x]
        chain.append(x)
    reasons = []
    for s in chain:
        tt = fn.blocks[s]['term']
        if tt['k'] != 'switch':
            continue
        p = place_of_local(tt['discr'])
        if p is None or p not in tainted:
            continue
        if not g.dominates(g_bb, s):
            continue
        from .expr import switch_info
        e, kind, labels, adt = switch_info(prog, fn, s)
        arms = g.switch_arms_reaching(s, [b_bb], avoid=(s,))
        reach = [a for a in arms if a[2]]
        if len(reach) == len(arms):
            continue  # not a gate: all arms reach b
        if kind == 'enum':
            labs = []
            listed = {labels.get(a[0], a[0]) for a in arms if a[0] != 'otherwise'}
            for a in reach:
                if a[0] == 'otherwise' and labels:
                    labs.extend(sorted(set(labels.values()) - listed) or ['otherwise'])
                else:
                    labs.append(labels.get(a[0], a[0]))
            if all(l in success for l in labs):
                return True, 'switch at bb%d on %s: only arm(s) %s reach the site' % (s, show(e)[:80], labs)
            reasons.append('switch at bb%d: arm(s) %s reach the site' % (s, labs))
        elif kind == 'bool':
            pol = _bool_polarity(e)
            vals = [labels.get(a[0], a[0]) for a in reach]
            if pol != 0 and all((v is True) == (pol > 0) for v in vals):
                return True, 'bool switch at bb%d on %s: only the success arm reaches the site' % (s, show(e)[:80])
            reasons.append('bool switch at bb%d on %s: arm(s) %s reach the site' % (s, show(e)[:80], vals))
    return False, '; '.join(reasons) or 'no switch on the call\'s result between the call and the site'


def place_of_local(op):
    from .facts import place_of
    p = place_of(op)
    if p is None or p['p']:
        return None if p is None else p['l']
    return p['l']


def first_call(fn, *pats, ctx=None, rule=None, key=None):
    cs = [c for c in fn.calls_to(*pats) if not c.cleanup]
    if not cs and ctx is not None:
        ctx.unknown(rule, key or ('anchor-call:%s->%s' % (fn.short, pats[0])), fn, 'no call to %s in %s' % (pats, fn.short))
    return cs


def require_callers(ctx, rule, key, pats, allowed, floor=1, desc=None):
    """CALLERS(pats) ⊆ allowed (short ids of the *root* function of each call site)."""
    prog = ctx.prog
    cs = prog.callers(*pats)
    ctx.saw_calls(len(cs))
    roots = {}
    for c in cs:
        r = prog.root_of(c.fn)
        roots.setdefault(r.short, []).append(c)
        ctx.touch(c.fn)
    extra = sorted(s for s in roots if not glob_any(s, allowed))
    name = desc or pats[0]
    if extra:
        c = roots[extra[0]][0]
        ctx.bad(rule, key, c, 'unexpected caller(s) of %s: %s (allowed: %s)' % (name, extra, sorted(allowed)))
    else:
        ctx.ok(rule, key, cs[0] if cs else '', 'callers of %s = %s' % (name, sorted(roots)))
    if len(cs) < floor:
        ctx.unknown(rule, key + ':floor', '', 'only %d call site(s) of %s found (floor %d)' % (len(cs), name, floor))
    return cs


def require_writers(ctx, rule, key, adt_pat, field, allowed, floor=1):
    """WRITERS(adt.field) ⊆ allowed root functions."""
    from .dataflow import writers
    prog = ctx.prog
    ws = writers(prog, adt_pat, field)
    roots = {}
    for w in ws:
        r = prog.root_of(w.fn)
        roots.setdefault(r.short, []).append(w)
        ctx.touch(w.fn)
    extra = sorted(s for s in roots if not glob_any(s, allowed))
    if extra:
        ctx.bad(rule, key, roots[extra[0]][0], 'unexpected writer(s) of %s.%s: %s (allowed: %s)' % (adt_pat, field, extra, sorted(allowed)))
    else:
        ctx.ok(rule, key, ws[0] if ws else '', 'writers of %s.%s = %s' % (adt_pat, field, sorted(roots)))
    if len(roots) < floor:
        ctx.unknown(rule, key + ':floor', '', 'only %d writer(s) of %s.%s found (floor %d)' % (len(roots), adt_pat, field, floor))
    return roots


# ---- assignment tables ----------------------------------------------------------------------------
def local_assignments(prog, fn, l):
    """[(bb, expr)] for every whole assignment of local l (statement or call destination)."""
    from .expr import defs
    e = ex(prog, fn)
    out = []
    for d in defs(fn).whole[l]:
        out.append((d[0], e.def_expr(d)))
    return out


def field_assignments(prog, fn, adt_pat, field):
    """[(bb, line, expr)] for every assignment whose destination ends in field `field` of adt."""
    from .dataflow import _ends_with_field
    e = ex(prog, fn)
    out = []
    for bi, b in enumerate(fn.blocks):
        if b.get('cleanup'):
            continue
        for st in b['stmts']:
            if 'rv' in st and _ends_with_field(st['dst'], adt_pat, field):
                out.append((bi, st.get('line'), e.rvalue(st['rv'])))
        t = b['term']
        if t['k'] == 'call' and t.get('dst') and _ends_with_field(t['dst'], adt_pat, field):
            out.append((bi, t.get('line'), e.call_expr(t)))
    return out


def unwrap_some(e):
    if isinstance(e, tuple) and e[0] == 'agg' and e[3] == 'Some' and e[4]:
        return e[4][0][1]
    return None


def agg_variant(e):
    return e[3] if isinstance(e, tuple) and e[0] == 'agg' else None


def agg_field(e, name):
    if isinstance(e, tuple) and e[0] == 'agg':
        for n, v in e[4]:
            if n == name:
                return v
    return None


def cond_variants(prog, fn, bb):
    """set of 'Variant' labels of enum conditions on bb's dominator chain."""
    out = set()
    for c in conditions(prog, fn, bb):
        if c['kind'] == 'enum' and len(c['taken']) >= 1:
            for t in c['taken']:
                out.add(str(t))
    return out


# ---- decision tables ----------------------------------------------------------------------------
def table(prog, fn, local=0, _depth=0):
    """TABLE(F): [(bb, value expr, [conditions])] for every whole assignment of `local` (default:
    the return place). Conditions are the exact conjunctive part of the path condition (switches
    on the dominator chain); a disjunctive remainder shows up as a weaker (shorter) conjunction."""
    out = []
    for bb, e in local_assignments(prog, fn, local):
        if fn.blocks[bb].get('cleanup'):
            continue
        conds = cond_exprs(prog, fn, bb)
        # the value is the merged result of an inlined helper (sa/inline.py): one row per return path
        # of the helper, under that path's own conditions
        if isinstance(e, tuple) and e[0] == 'var' and len(e) > 2 and isinstance(e[2], int) and e[2] != local \
                and fn.locals[e[2]].get('inlined_from') and _depth < 3:
            sub = table(prog, fn, e[2], _depth + 1)
            if sub:
                for sbb, se, sc in sub:
                    out.append((sbb, se, sc + [c for c in conds if c not in sc]))
                continue
        out.append((bb, e, conds))
    return out


def local_by_name(fn, name):
    return [i for i, l in enumerate(fn.locals) if l.get('name') == name]


def describe_table(rows):
    return [(show(e)[:120], fmt_conds(c)[:300]) for _, e, c in rows]


# ---- structural identification of mutable locals (rules must not depend on variable names) --------
def find_locals(prog, fn, *def_preds):
    """locals (user variables or temporaries with several definitions) such that every predicate in
    def_preds is satisfied by at least one of the local's definitions. A predicate receives
    (expr, local_index)."""
    from .expr import defs
    e = ex(prog, fn)
    out = []
    for l in range(len(fn.locals)):
        ds = defs(fn).whole[l]
        if len(ds) < max(1, len(def_preds)):
            continue
        xs = [e.def_expr(d) for d in ds]
        if all(any(p(x, l) for x in xs) for p in def_preds):
            out.append(l)
    return out


def is_var(l):
    """pattern: the multi-definition local with index l"""
    return lambda e: isinstance(e, tuple) and e[0] == 'var' and e[2] == l


def counter_local(prog, fn, init=0, step=1, op='Add'):
    """locals defined as `init` and as `self <op> step` (loop counters / accumulators)"""
    def p_init(x, l):
        return const_val(x) == init
    def p_step(x, l):
        return isinstance(x, tuple) and x[0] == 'bin' and x[1] == op and ((is_var(l)(x[2]) and const_val(x[3]) == step) or (op in ('Add', 'Mul') and is_var(l)(x[3]) and const_val(x[2]) == step))
    return find_locals(prog, fn, p_init, p_step)
