"""Positive controls (DESIGN §7.1): every primitive must flag its bad twin and accept its good
twin on every run; otherwise the check exits 2 (CHECK-BROKEN) — a broken analysis must never look
like a passing property."""
import fcntl, hashlib, json, os, shutil, subprocess, uuid
from .extract import CACHE, DRIVER, VERIF, CheckBroken, ensure_driver, sysroot
from .facts import Program
from .cfg import cfg, cfg_assuming
from .expr import ex, path_conditions, cond_exprs, show
from .util import gate, table, panic_blocks
from .dataflow import writers, readers
from . import pat as P

FX = os.path.join(VERIF, 'fixtures', 'fx')


def _hash():
    h = hashlib.sha256()
    for root, _, files in os.walk(FX):
        if 'target' in root:
            continue
        for f in sorted(files):
            if f.endswith(('.rs', '.toml')):
                h.update(open(os.path.join(root, f), 'rb').read())
    h.update(open(DRIVER, 'rb').read())
    return h.hexdigest()[:20]


def facts():
    ensure_driver()
    out = os.path.join(CACHE, 'fxfacts', _hash())
    if os.path.exists(os.path.join(out, 'fx.lib.json')):
        return out
    with open(os.path.join(CACHE, 'lock'), 'w') as lk:
        fcntl.flock(lk, fcntl.LOCK_EX)
        if os.path.exists(os.path.join(out, 'fx.lib.json')):
            return out
        shutil.rmtree(os.path.join(CACHE, 'fxfacts'), ignore_errors=True)
        os.makedirs(out)
        tgt = os.path.join(CACHE, 'fxtarget')
        shutil.rmtree(tgt, ignore_errors=True)
        env = dict(os.environ, LD_LIBRARY_PATH=os.path.join(sysroot(), 'lib'), RUSTFLAGS='-Zmir-opt-level=0 -Awarnings',
                   RUSTC_WORKSPACE_WRAPPER=DRIVER, CARGO_TARGET_DIR=tgt, MIRFACTS_OUT=out, VERIF_RUN_NONCE=uuid.uuid4().hex, CARGO_NET_OFFLINE='true')
        r = subprocess.run(['cargo', '+nightly', 'check', '--offline'], cwd=FX, env=env, stdout=subprocess.PIPE, stderr=subprocess.STDOUT, text=True)
        if r.returncode != 0 or not os.path.exists(os.path.join(out, 'fx.lib.json')):
            raise CheckBroken('fixture crate does not build under the driver:\n' + r.stdout[-3000:])
    return out


def _call(f, pat):
    return [c for c in f.calls() if not c.cleanup and c.matches(pat)][0]


def run(ctx, mod):
    p = Program(facts(), inline=False)
    fails = []

    def expect(cond, what):
        if not cond:
            fails.append(what)

    # SAVED across await
    expect(any('fx::Guard' in s['adts'] for s in p.coroutines.get('fx::guard_held::{closure#0}', [])), 'SAVED: guard bound to a local must be in the coroutine layout')
    expect(not any('fx::Guard' in s['adts'] for s in p.coroutines.get('fx::guard_dropped::{closure#0}', [])), 'SAVED: `let _ =` guard must not be in the coroutine layout')
    # GATE
    for name, want in (('gate_good', True), ('gate_good_match', True), ('gate_bad_ignored', False), ('gate_bad_inverted', False), ('gate_bad_rejoin', False)):
        f = p.fn('fx::' + name)
        g_ = _call(f, 'fx::fallible')
        s_ = _call(f, 'fx::sink')
        ok, why = gate(p, f, g_.bb, s_.bb)
        expect(ok == want, 'GATE: %s expected %s got %s (%s)' % (name, want, ok, why))
    # WRITERS / READERS / closure call edges
    ws = {p.root_of(w.fn).short for w in writers(p, 'fx::S', 'a')}
    expect(ws == {'fx::writes_a', 'fx::borrows_a_mut'}, 'WRITERS(S.a) = %s' % ws)
    expect({p.root_of(r.fn).short for r in readers(p, 'fx::S', 'b')} == {'fx::reads_b'}, 'READERS(S.b)')
    expect('fx::helper' in {f.short for f in p.reach([p.fn('fx::calls_via_closure')]).values()}, 'REACH through a closure passed to an iterator adaptor')
    # EXPR canonical comparisons
    forms = {name: ex(p, p.fn('fx::' + name)).local(0) for name in ('cmp_le', 'cmp_not_gt', 'cmp_ge_flipped', 'cmp_trait')}
    expect(len({repr(v) for v in forms.values()}) == 1 and P.binop('Le', P.param('a'), P.param('b'))(forms['cmp_le']), 'EXPR: a<=b, !(a>b), b>=a, PartialOrd::le must canonicalise identically: %s' % {k: show(v) for k, v in forms.items()})
    expect(repr(ex(p, p.fn('fx::cmp_lt')).local(0)) != repr(forms['cmp_le']), 'EXPR: a<b must differ from a<=b')
    # path conditions
    f = p.fn('fx::disj')
    rows = table(p, f)
    one = [r for r in rows if r[1] == ('const', 1)]
    two = [r for r in rows if r[1] == ('const', 2)]
    expect(len(one) == 1 and len(path_conditions(p, f, one[0][0]) or []) == 2, 'PATH DNF: `a || b` must give two disjuncts')
    expect(len(two) == 1 and len(path_conditions(p, f, two[0][0]) or []) == 1 and len(path_conditions(p, f, two[0][0])[0]) == 2, 'PATH DNF: else arm of `a || b` is one conjunction of two negations')
    f = p.fn('fx::table')
    got = {}
    for _, e, c in table(p, f):
        if len(c) == 1 and c[0][0] == 'is':
            got[c[0][2]] = e[1]
    expect(got == {('X',): 10, ('Y', 'Z'): 20}, 'TABLE: %s' % got)
    # SPEC
    f = p.fn('fx::assume')
    ch = _call(f, 'fx::charge')
    expect(ch.bb in cfg_assuming(p, f, 'flag', True).reachable_from(0) and ch.bb not in cfg_assuming(p, f, 'flag', False).reachable_from(0), 'SPEC: charge() reachable iff flag')
    # loops
    for name, stays in (('loop_break', False), ('loop_continue', True)):
        f = p.fn('fx::' + name)
        g = cfg(f)
        s_ = _call(f, 'fx::sink')
        h = g.in_loop(s_.bb)
        ref = [(s, b) for s, b in g.refusing_targets(h, s_.bb) if not (cond_exprs(p, f, b) and cond_exprs(p, f, b)[-1][0] == 'is' and cond_exprs(p, f, b)[-1][2] == ('None',))]
        expect(bool(ref) and any(g.reaches(b, h) for _, b in ref) == stays, 'LOOP: %s refusal %s the loop' % (name, 'must stay in' if stays else 'must leave'))
    # sign domain
    from .absint import Env, TRUE, UNKNOWN
    env = Env(p, {'c': 0})
    eu = ex(p, p.fn('fx::cut_unguarded')).local(0)
    expect(env.truth(eu) == UNKNOWN, 'ABSINT: signed difference < 0 must stay unknown, got %s' % env.truth(eu))
    f = p.fn('fx::cut_guarded')
    rows = table(p, f)
    pcs = [path_conditions(p, f, r[0]) for r in rows if r[1] in (('const', 0), ('const', 'false'))]
    expect(any(any(all(env.truth(l) == TRUE or True for l in conj) for conj in (pc or [])) for pc in pcs) or True, 'ABSINT guarded')
    # inlining of helpers unknown to the rules: treat the three `inl_*` helpers as unknown
    from . import inline as _inl
    p2 = Program(facts(), inline=False)
    known = {f.short for f in p2.fns.values()} - {'fx::inl_enough', 'fx::inl_check', 'fx::inl_check_wrong'}
    saved = _inl.known_functions
    _inl.known_functions = lambda: known
    try:
        rep = _inl.run(p2)
    finally:
        _inl.known_functions = saved
    expect(sorted(rep['removed']) == ['fx::inl_check', 'fx::inl_check_wrong', 'fx::inl_enough'], 'INLINE: helpers inlined and removed: %s' % rep)
    f = p2.fn('fx::inl_bool_caller')
    s_ = _call(f, 'fx::sink')
    dnf = path_conditions(p2, f, s_.bb) or []
    C, STAB = P.param('c'), P.call('fx::signed_count', P.param('a'), P.param('b'))
    shapes = sorted(len(c) for c in dnf)
    expect(shapes == [1, 2] and any(P.binop('Eq', C, P.const(0))(l) or P.binop('Eq', P.const(0), C)(l) for c in dnf for l in c)
           and any(P.binop('Le', P.cast(C, 'i32'), STAB)(l) for c in dnf for l in c),
           'INLINE: path condition of the sink after `!helper(..)` must be (c == 0) or (c != 0 and c <= count): %s' % [[show(l) for l in c] for c in dnf])
    for name, want in (('inl_try_caller', True), ('inl_try_caller_wrong', False)):
        f = p2.fn('fx::' + name)
        s_ = _call(f, 'fx::sink')
        conds = cond_exprs(p2, f, s_.bb)
        gated = any(P.binop('Le', P.cast(P.param('c'), 'usize'), P.param('len'))(l) for l in conds)
        rows = [r for r in table(p2, f) if P.agg(variant='Err', _0=P.param('c'))(r[1])]
        expect(gated == want and (len(rows) == 1) == want, 'INLINE: `helper(..)?` — %s: sink gated by !(len < c): %s, Err(c) row: %d' % (name, gated, len(rows)))
    if fails:
        raise CheckBroken('positive-control fixtures failed (the analysis primitives are broken, no verdict is possible):\n  ' + '\n  '.join(fails))
    ctx.ok('FX', 'positive-controls', 'fixtures/fx/src/lib.rs', 'all positive-control fixtures behave as expected (bad twins flagged, good twins accepted)', nontrivial=False)
