"""EXPR / PRED primitives (DESIGN §3): normalised expression trees of MIR values, canonical
comparisons, branch conditions on the dominator chain of a block.

Expression nodes are tuples:
  ('const', v)                v: int | str (pretty)            ('item', path, v)  named const item
  ('param', i, name)          ('upvar', name)                  ('var', name_or_local, local)  multi-def local
  ('field', base, name, owner) ('downcast', base, variant)     ('index', base, idx)
  ('call', callee_short, args) ('bin', op, l, r)  ('un', op, x)  ('cast', x, to)  ('len', x)
  ('agg', kind, adt, variant, fields)   fields: tuple of (name, expr)
  ('closure', id, upvar_exprs) ('fn', short)  ('discr', x)  ('unknown', why)
"""
import re
from .facts import const_of, place_of, norm
from .cfg import cfg

COMMUTATIVE = {'Add', 'Mul', 'Eq', 'Ne', 'BitAnd', 'BitOr', 'BitXor', 'min', 'max'}
FLIP = {'Gt': 'Lt', 'Ge': 'Le'}
NEGATE = {'Lt': 'Ge', 'Le': 'Gt', 'Gt': 'Le', 'Ge': 'Lt', 'Eq': 'Ne', 'Ne': 'Eq'}

# calls that are the identity on the value for the purposes of EXPR
IDENTITY_CALLS = (
    'core::ops::deref::Deref::deref', 'core::ops::deref::DerefMut::deref_mut',
    '<* as core::ops::deref::Deref>::deref', '<* as core::ops::deref::DerefMut>::deref_mut',
    '<* as core::clone::Clone>::clone', 'core::clone::Clone::clone',
    '<* as core::borrow::Borrow<*>>::borrow', '<* as core::convert::AsRef<*>>::as_ref',
    'core::convert::AsRef::as_ref', 'core::borrow::Borrow::borrow',
    '<I as core::iter::traits::collect::IntoIterator>::into_iter',
    '<* as core::borrow::ToOwned>::to_owned',
)
CMP_CALLS = {
    'lt': 'Lt', 'le': 'Le', 'gt': 'Gt', 'ge': 'Ge', 'eq': 'Eq', 'ne': 'Ne',
}
SLICE_ITER_ALIASES = ('core::slice::iter::into_iter', "<&* alloc::vec::Vec as core::iter::traits::collect::IntoIterator>::into_iter",
                      '<&alloc::vec::Vec as core::iter::traits::collect::IntoIterator>::into_iter')
PRIM_OPS = {'add': 'Add', 'sub': 'Sub', 'mul': 'Mul', 'div': 'Div', 'rem': 'Rem', 'bitxor': 'BitXor', 'bitand': 'BitAnd', 'bitor': 'BitOr'}
MINMAX = {
    'core::cmp::min': 'min', 'core::cmp::max': 'max', 'core::cmp::Ord::min': 'min', 'core::cmp::Ord::max': 'max',
}


def _glob(s, pats):
    import fnmatch
    return any(s == p or fnmatch.fnmatchcase(s, p) for p in pats)


class Defs:
    """def sites of every local of a function."""

    def __init__(self, fn):
        self.fn = fn
        n = len(fn.locals)
        self.whole = [[] for _ in range(n)]   # (bb, si|'term', kind)
        self.partial = [[] for _ in range(n)]
        for bi, b in enumerate(fn.blocks):
            for si, st in enumerate(b['stmts']):
                d = st['dst']
                (self.whole if not d['p'] else self.partial)[d['l']].append((bi, si))
            t = b['term']
            if t['k'] == 'call' and t.get('dst') is not None:
                d = t['dst']
                (self.whole if not d['p'] else self.partial)[d['l']].append((bi, 'term'))


def defs(fn):
    d = fn._cache.get('defs')
    if d is None:
        d = Defs(fn)
        fn._cache['defs'] = d
    return d


class Ex:
    """Expression builder for one function."""

    def __init__(self, prog, fn):
        self.prog = prog
        self.fn = fn
        self.defs = defs(fn)
        self.memo = {}
        self.upvar_names = {}
        for u in fn.upvars:
            p = u['place']
            if p['l'] == 1 and p['p']:
                # _1.<idx> or (*_1).<idx>
                idx = None
                for e in p['p']:
                    if isinstance(e, dict) and 'field_idx' in e:
                        idx = e['field_idx']
                        break
                if idx is not None:
                    self.upvar_names[idx] = u['name']

    # -- operands / places ------------------------------------------------------------------
    def operand(self, op, depth=0):
        c = const_of(op)
        if c is not None:
            return self.const(c)
        p = place_of(op)
        if p is not None:
            return self.place(p, depth)
        return ('unknown', 'operand')

    def const(self, c):
        if 'fn' in c:
            return ('fn', norm(c.get('resolved') or c['fn']))
        if 'promoted' in c:
            return self.promoted(c['promoted'])
        if 'item' in c:
            return ('item', c['item'], c.get('int', c.get('s')))
        if 'int' in c:
            return ('const', c['int'])
        s = c.get('s', '?')
        if s.startswith('const '):
            s = s[6:]
        return ('const', s)

    def promoted(self, n):
        key = ('prom', n)
        if key in self.memo:
            return self.memo[key]
        proms = self.fn.raw.get('promoted') or []
        if n >= len(proms):
            return ('const', 'promoted[%d]' % n)
        pf = _PromotedFn(self.fn, proms[n], n)
        r = Ex(self.prog, pf).local(0)
        self.memo[key] = r
        return r

    def place(self, p, depth=0):
        base = self.local(p['l'], depth)
        is_closure_env = (p['l'] == 1 and self.fn.kind == 'Closure')
        for e in p['p']:
            if e == 'deref':
                continue
            if isinstance(e, str):
                continue
            if 'field_idx' in e:
                if is_closure_env and base == ('param', 1, None) or (is_closure_env and base[0] == 'param' and base[1] == 1):
                    nm = self.upvar_names.get(e['field_idx'])
                    base = ('upvar', nm if nm is not None else 'upvar%d' % e['field_idx'], e['field_idx'])
                    is_closure_env = False
                    continue
                name = e.get('field', str(e['field_idx']))
                # projection out of a known aggregate / checked-op tuple
                if base[0] == 'agg':
                    hit = None
                    for fname, fe in base[4]:
                        if fname == name:
                            hit = fe
                    if hit is not None:
                        base = hit
                        continue
                if base[0] == 'bin' and base[1].endswith('WithOverflow') and e.get('tuple'):
                    if e['field_idx'] == 0:
                        base = ('bin', base[1][:-12], base[2], base[3])
                    else:
                        base = ('overflow', base)
                    continue
                owner = e.get('of') or ('tuple' if e.get('tuple') else e.get('of_closure', '?'))
                base = ('field', base, name, owner)
            elif 'downcast' in e:
                if base[0] == 'agg' and base[1] == 'adt' and base[3] == e['downcast']:
                    continue
                base = ('downcast', base, e['downcast'])
            elif 'index' in e:
                base = ('index', base, self.local(e['index'], depth))
            elif 'const_index' in e:
                base = ('index', base, ('const', e['const_index']))
            elif 'subslice' in e:
                base = ('subslice', base, tuple(e['subslice']))
        return base

    def upvar_source(self, idx):
        """expression, in the parent function, of the value captured as upvar `idx` of this closure
        (None if the closure's construction site is not found)"""
        key = ('upsrc', idx)
        if key in self.memo:
            return self.memo[key]
        r = None
        parent = self.prog.fns.get(getattr(self.fn, 'parent', None) or '')
        if parent is not None:
            pe = ex(self.prog, parent)
            for b in parent.blocks:
                for st in b['stmts']:
                    rv = st.get('rv') or {}
                    if rv.get('agg') in ('closure', 'coroutine', 'coroutine_closure') and rv.get('closure') == self.fn.id and idx < len(rv['ops']):
                        r = pe.operand(rv['ops'][idx])
        self.memo[key] = r
        return r

    def local(self, l, depth=0):
        if l in self.memo:
            return self.memo[l]
        fn = self.fn
        if 1 <= l <= fn.argc:
            r = ('param', l, fn.local_name(l))
            self.memo[l] = r
            return r
        ds = self.defs.whole[l]
        if depth > 80:
            return ('unknown', 'depth')
        if len(ds) == 1:
            self.memo[l] = ('var', fn.local_name(l) or '_%d' % l, l)  # cycle guard
            r = self.def_expr(ds[0], depth + 1)
            self.memo[l] = r
            return r
        if len(ds) == 0:
            r = ('var', fn.local_name(l) or '_%d' % l, l)
        else:
            r = ('var', fn.local_name(l) or '_%d' % l, l)
        self.memo[l] = r
        return r

    def def_exprs(self, l):
        """expressions of all whole-local definitions of l (for multi-def locals)."""
        return [self.def_expr(d, 1) for d in self.defs.whole[l]]

    def def_expr(self, d, depth=0):
        bi, si = d
        b = self.fn.blocks[bi]
        if si == 'term':
            return self.call_expr(b['term'], depth)
        st = b['stmts'][si]
        if 'rv' not in st:
            return ('unknown', 'setdiscr')
        return self.rvalue(st['rv'], depth)

    def call_expr(self, t, depth=0):
        c = const_of(t['func'])
        args = [self.operand(a, depth) for a in t['args']]
        if not c or 'fn' not in c:
            f = self.operand(t['func'], depth)
            return canon(('callv', f, tuple(args)))
        short = norm(c.get('resolved') or c['fn'])
        gshort = norm(c['fn'])
        if (_glob(short, IDENTITY_CALLS) or _glob(gshort, IDENTITY_CALLS)) and len(args) == 1:
            return args[0]
        if len(args) == 1 and _glob(short, SLICE_ITER_ALIASES):
            return ('call', 'core::slice::iter', tuple(args))
        last = gshort.rsplit('::', 1)[-1]
        if last in CMP_CALLS and len(args) == 2 and (
                gshort.startswith('core::cmp::PartialOrd::') or gshort.startswith('core::cmp::PartialEq::')):
            return canon(('bin', CMP_CALLS[last], args[0], args[1]))
        if len(args) == 2 and last in PRIM_OPS and re.match(r"^<&?'?[a-z_]*\s?(u|i)(8|16|32|64|128|size) as core::ops::(arith|bit)::", short):
            return canon(('bin', PRIM_OPS[last], args[0], args[1]))
        if len(args) == 1 and isinstance(args[0], tuple) and args[0][0] == 'agg' and args[0][1] == 'adt' and args[0][2] in ('core::result::Result', 'core::option::Option'):
            a = args[0]
            CF = 'core::ops::control_flow::ControlFlow'
            if gshort.endswith('::Try::branch') or short.endswith('as core::ops::try_trait::Try>::branch'):
                if a[3] in ('Ok', 'Some'):
                    return ('agg', 'adt', CF, 'Continue', (('0', dict(a[4]).get('0')),))
                return ('agg', 'adt', CF, 'Break', (('0', a),))
            if gshort.endswith('::FromResidual::from_residual') or short.endswith('>::from_residual'):
                return a
        if gshort in MINMAX and len(args) == 2:
            return canon(('call', MINMAX[gshort], tuple(args)))
        return canon(('call', short, tuple(args)))

    def rvalue(self, rv, depth=0):
        if 'use' in rv:
            return self.operand(rv['use'], depth)
        if 'ref' in rv:
            return self.place(rv['ref'], depth)
        if 'cast' in rv:
            x = self.operand(rv['cast'], depth)
            k = rv.get('kind', '')
            if k.startswith('PointerCoercion') or k in ('PtrToPtr', 'Subtype', 'Transmute'):
                return x
            return ('cast', x, rv['to'])
        if 'bin' in rv:
            op = rv['bin']
            if op.endswith('Unchecked'):
                op = op[:-9]
            return canon(('bin', op, self.operand(rv['l'], depth), self.operand(rv['r'], depth)))
        if 'un' in rv:
            x = self.operand(rv['x'], depth)
            if rv['un'] == 'PtrMetadata':
                return ('len', x)
            return canon(('un', rv['un'], x))
        if 'discr' in rv:
            return ('discr', self.place(rv['discr'], depth))
        if 'agg' in rv:
            k = rv['agg']
            ops = [self.operand(o, depth) for o in rv['ops']]
            if k == 'adt':
                names = rv.get('fields', [])
                fields = tuple((names[i] if i < len(names) else str(i), ops[i]) for i in range(len(ops)))
                return ('agg', 'adt', rv['adt'], rv['variant'], fields)
            if k == 'tuple':
                return ('agg', 'tuple', None, None, tuple((str(i), o) for i, o in enumerate(ops)))
            if k in ('closure', 'coroutine', 'coroutine_closure'):
                return ('closure', rv['closure'], tuple(ops))
            return ('agg', k, None, None, tuple((str(i), o) for i, o in enumerate(ops)))
        if 'tls' in rv:
            return ('tls', rv['tls'])
        if 'repeat' in rv:
            return ('repeat', self.operand(rv['repeat'], depth), rv.get('n'))
        return ('unknown', 'rvalue')


class _PromotedFn:
    """Minimal Fn-like view of a promoted constant body (its value is local _0)."""

    def __init__(self, parent, raw, n):
        self.id = '%s::promoted[%d]' % (parent.id, n)
        self.raw = raw
        self.blocks = raw['blocks']
        self.locals = raw['locals']
        self.argc = 0
        self.kind = 'Promoted'
        self.upvars = []
        self._cache = {}

    def local_name(self, l):
        return self.locals[l].get('name')

    def local_ty(self, l):
        return self.locals[l]['ty']['s']

    def local_adt(self, l):
        return self.locals[l]['ty'].get('adt')


def ex(prog, fn):
    e = fn._cache.get('ex')
    if e is None:
        e = Ex(prog, fn)
        fn._cache['ex'] = e
    return e


# ---- canonicalisation -------------------------------------------------------------------------
def canon(e):
    if not isinstance(e, tuple):
        return e
    if e[0] == 'bin':
        op, l, r = e[1], e[2], e[3]
        if op in FLIP:
            op, l, r = FLIP[op], r, l
        if op in COMMUTATIVE and repr(r) < repr(l):
            l, r = r, l
        return ('bin', op, l, r)
    if e[0] == 'un' and e[1] == 'Not':
        x = e[2]
        if isinstance(x, tuple) and x[0] == 'bin' and x[1] in NEGATE:
            return canon(('bin', NEGATE[x[1]], x[2], x[3]))
        if isinstance(x, tuple) and x[0] == 'un' and x[1] == 'Not':
            return x[2]
        return e
    if e[0] == 'call' and e[1] in ('min', 'max'):
        a = list(e[2])
        a.sort(key=repr)
        return ('call', e[1], tuple(a))
    return e


def negate(e):
    return canon(('un', 'Not', e))


# ---- traversal / matching ----------------------------------------------------------------------
def walk(e):
    """all sub-expressions (pre-order)."""
    st = [e]
    while st:
        x = st.pop()
        if not isinstance(x, tuple):
            continue
        yield x
        k = x[0]
        if k in ('field', 'downcast', 'cast', 'len', 'discr', 'overflow'):
            st.append(x[1])
        elif k == 'index':
            st.append(x[1]); st.append(x[2])
        elif k == 'bin':
            st.append(x[2]); st.append(x[3])
        elif k == 'un':
            st.append(x[2])
        elif k == 'call':
            st.extend(x[2])
        elif k == 'callv':
            st.append(x[1]); st.extend(x[2])
        elif k == 'agg':
            st.extend(fe for _, fe in x[4])
        elif k == 'closure':
            st.extend(x[2])
        elif k in ('repeat', 'subslice'):
            st.append(x[1])


def any_sub(e, pred):
    return any(pred(x) for x in walk(e))


def is_call(e, *pats):
    return isinstance(e, tuple) and e[0] == 'call' and _glob(e[1], pats)


def is_field(e, name, owner_pat=None):
    import fnmatch
    return (isinstance(e, tuple) and e[0] == 'field' and e[2] == name and
            (owner_pat is None or fnmatch.fnmatchcase(norm(e[3]), owner_pat)))


def is_const(e, v=None):
    if not isinstance(e, tuple):
        return False
    if e[0] == 'const':
        return v is None or e[1] == v
    if e[0] == 'item':
        return v is None or e[2] == v
    return False


def const_val(e):
    if isinstance(e, tuple):
        if e[0] == 'const':
            return e[1]
        if e[0] == 'item':
            return e[2]
        if e[0] == 'cast':
            return const_val(e[1])
    return None


def strip_casts(e):
    while isinstance(e, tuple) and e[0] == 'cast':
        e = e[1]
    return e


def show(e, depth=0):
    if not isinstance(e, tuple):
        return repr(e)
    if depth > 12:
        return '…'
    k = e[0]
    s = lambda x: show(x, depth + 1)
    if k == 'const':
        return str(e[1])
    if k == 'item':
        return '%s(=%s)' % (e[1].rsplit('::', 1)[-1], e[2])
    if k == 'param':
        return str(e[2] or 'arg%d' % e[1])
    if k == 'upvar':
        return '^%s' % e[1]
    if k == 'var':
        return '%s' % e[1]
    if k == 'field':
        return '%s.%s' % (s(e[1]), e[2])
    if k == 'downcast':
        return '%s as %s' % (s(e[1]), e[2])
    if k == 'index':
        return '%s[%s]' % (s(e[1]), s(e[2]))
    if k == 'call':
        return '%s(%s)' % (short_name(e[1]), ', '.join(s(a) for a in e[2]))
    if k == 'callv':
        return '(%s)(%s)' % (s(e[1]), ', '.join(s(a) for a in e[2]))
    if k == 'bin':
        return '(%s %s %s)' % (s(e[2]), e[1], s(e[3]))
    if k == 'un':
        return '%s(%s)' % (e[1], s(e[2]))
    if k == 'cast':
        return '(%s as %s)' % (s(e[1]), e[2])
    if k == 'len':
        return 'len(%s)' % s(e[1])
    if k == 'discr':
        return 'discr(%s)' % s(e[1])
    if k == 'agg':
        nm = (e[2] or e[1]).rsplit('::', 1)[-1]
        if e[3] and e[1] == 'adt':
            nm += '::' + e[3]
        return '%s{%s}' % (nm, ', '.join('%s: %s' % (n, s(v)) for n, v in e[4]))
    if k == 'closure':
        return 'closure<%s>' % e[1].rsplit('::', 2)[-2:]
    if k == 'fn':
        return 'fn:' + short_name(e[1])
    return str(e)


def short_name(s):
    if s.startswith('<'):
        return s
    parts = s.split('::')
    return '::'.join(parts[-2:]) if len(parts) > 2 else s


# ---- branch conditions ---------------------------------------------------------------------------
ENUM_DISCR = {
    'core::option::Option': {0: 'None', 1: 'Some'},
    'core::result::Result': {0: 'Ok', 1: 'Err'},
    'core::ops::control_flow::ControlFlow': {0: 'Continue', 1: 'Break'},
    'core::task::poll::Poll': {0: 'Ready', 1: 'Pending'},
    'core::cmp::Ordering': {-1: 'Less', 0: 'Equal', 1: 'Greater', 255: 'Less'},
}


def switch_info(prog, fn, bb):
    """For a switch block: (discriminant expr, kind, {value -> label}) where kind is 'bool',
    'enum' (labels are variant names) or 'int'."""
    t = fn.blocks[bb]['term']
    assert t['k'] == 'switch'
    e = ex(prog, fn).operand(t['discr'])
    p = place_of(t['discr'])
    ty = fn.local_ty(p['l']) if p and not p['p'] else None
    if isinstance(e, tuple) and e[0] == 'discr':
        # enum switch: find the ADT of the discriminated place
        adt = _adt_of_discr(prog, fn, bb)
        labels = {}
        if adt:
            table = ENUM_DISCR.get(adt) or prog_enum_table(prog, adt)
            if table:
                labels = dict(table)
        return e[1], 'enum', labels, adt
    if ty == 'bool':
        return e, 'bool', {0: False, 'otherwise': True}, None
    return e, 'int', {}, None


def prog_enum_table(prog, adt):
    a = prog.adts.get(adt)
    if a and a['kind'] == 'Enum':
        return {v.get('discr', i): v['name'] for i, v in enumerate(a['variants'])}
    ext = getattr(prog, 'ext_enums', {}).get(adt)
    if ext:
        return {int(k): v for k, v in ext.items()}
    return None


def _adt_of_discr(prog, fn, bb):
    t = fn.blocks[bb]['term']
    p = place_of(t['discr'])
    if not p or p['p']:
        return None
    d = defs(fn).whole[p['l']]
    if len(d) != 1 or d[0][1] == 'term':
        return None
    st = fn.blocks[d[0][0]]['stmts'][d[0][1]]
    rv = st.get('rv', {})
    if 'discr' not in rv:
        return None
    if rv.get('adt'):
        return rv['adt']
    return place_adt(prog, fn, rv['discr'])


def place_adt(prog, fn, place):
    """ADT def path of the type of a place (best effort: last field projection's owner's field
    type is not tracked; we use local type when there is no field projection)."""
    projs = [e for e in place['p'] if e != 'deref' and not isinstance(e, str)]
    if not projs:
        return fn.local_adt(place['l'])
    last = projs[-1]
    if 'downcast' in last and len(projs) == 1:
        return fn.local_adt(place['l'])
    if 'field' in last and last.get('of'):
        a = prog.adts.get(last['of'])
        if a:
            for v in a['variants']:
                if last.get('variant') and v['name'] != last['variant']:
                    continue
                for f in v['fields']:
                    if f['name'] == last['field']:
                        # first ADT in the field's type is the outermost type constructor
                        return f['adts'][0] if f['adts'] else None
    return None


def conditions(prog, fn, bb, unwind=False):
    """Branch conditions on which block bb is control dependent along its dominator chain:
    list of (switch_bb, discr_expr, kind, labels_of_arms_reaching_bb, labels_of_other_arms)."""
    g = cfg(fn, unwind)
    out = []
    idom = g.idom()
    if bb not in idom:
        return out
    chain = []
    x = bb
    while x != 0:
        x = idom[x]
        chain.append(x)
    for s in reversed(chain):
        t = fn.blocks[s]['term']
        if t['k'] != 'switch':
            continue
        arms = g.switch_arms_reaching(s, [bb], avoid=(s,))
        yes = [a for a in arms if a[2]]
        no = [a for a in arms if not a[2]]
        if not no:
            continue
        e, kind, labels, adt = switch_info(prog, fn, s)
        def lab(a, labels=labels, arms=arms, kind=kind):
            if a[0] == 'otherwise' and kind == 'enum' and labels:
                listed = {labels.get(x[0], x[0]) for x in arms if x[0] != 'otherwise'}
                rest = sorted(str(v) for v in set(labels.values()) - listed)
                return '|'.join(rest) if rest else 'otherwise'
            return labels.get(a[0], a[0])
        out.append({'bb': s, 'expr': e, 'kind': kind, 'adt': adt,
                    'taken': [lab(a) for a in yes], 'not_taken': [lab(a) for a in no]})
    return out


def hidden_guards(prog, fn, bb):
    """Switch blocks that guard bb without being on its dominator chain: the switch lies on a path to bb
    (outside loops, or in a loop that also contains bb), at least one of its arms cannot reach bb, and it
    does not dominate bb through a single arm. `if a && b { return }` in front of bb and `a || b`
    around bb are the typical cases: their tests constrain bb but `conditions()` cannot show them as a
    conjunction. Rules that assert the *exact* condition of a site must see that such a guard exists."""
    key = ('hidden', bb)
    r = fn._cache.get(key)
    if r is not None:
        return r
    g = cfg(fn)
    idom = g.idom()
    out = []
    if bb in idom:
        chain, x = set(), bb
        while x != 0:
            x = idom[x]
            chain.add(x)
        inloop = fn._cache.get('inloop')
        if inloop is None:
            inloop = set()
            for h in {h for _, h in g.back_edges()}:
                inloop |= g.loop_blocks(h)
            fn._cache['inloop'] = inloop
        reach0 = g.reachable_from(0)
        for s in range(g.n):
            b = fn.blocks[s]
            t = b['term']
            if t['k'] != 'switch' or b.get('cleanup') or s in chain or s not in reach0:
                continue
            if s in inloop and bb not in inloop:
                continue
            if not g.reaches(s, bb):
                continue
            if s == bb and not g.reaches_strict(s, bb):
                continue  # the block's own terminator comes after the site's statement (and is not on a cycle back to it)
            arms = [x for _, x in t['targets']] + [t['otherwise']]
            arms = [x for x in arms if fn.blocks[x]['term']['k'] != 'unreachable']
            if any(not g.reaches(x, bb) for x in arms):
                out.append(s)
    fn._cache[key] = out
    return out


def visible(conds):
    """conditions without the ('hidden', expr) markers of cond_exprs"""
    return [c for c in conds if not (isinstance(c, tuple) and c and c[0] == 'hidden')]


def cond_exprs(prog, fn, bb, hidden=True):
    """Conditions as canonical boolean expressions / (enum expr, variants) pairs, flattened:
    bool switches yield the expr (negated when bb is on the false arm). For every off-chain guard
    (hidden_guards) a marker ('hidden', tested expr) is appended, so that an exact match of the
    conditions fails when an additional compound guard sits in front of the site."""
    res = []
    for c in conditions(prog, fn, bb):
        if c['kind'] == 'bool':
            if c['taken'] == [True]:
                res.append(c['expr'])
            elif c['taken'] == [False]:
                res.append(negate(c['expr']))
            else:
                res.append(('unknown', 'bool-switch'))
        elif c['kind'] == 'enum':
            labs = []
            for t in c['taken']:
                labs.extend(str(t).split('|'))
            res.append(('is', c['expr'], tuple(sorted(labs))))
        else:
            res.append(('switch', c['expr'], tuple(map(str, c['taken']))))
    if hidden:
        for s_ in hidden_guards(prog, fn, bb):
            try:
                e_ = switch_info(prog, fn, s_)[0]
            except Exception:
                e_ = ('unknown', 'switch')
            res.append(('hidden', e_))
    return res


# ---- exact path conditions as DNF -----------------------------------------------------------------
def _arms(fn, s):
    t = fn.blocks[s]['term']
    arms = [(v, b) for v, b in t['targets']]
    if fn.blocks[t['otherwise']]['term']['k'] != 'unreachable':
        arms.append(('otherwise', t['otherwise']))
    return arms


def path_dnf(prog, fn, bb, limit=400):
    """Exact path condition of block bb over acyclic paths (back edges ignored), as a list of
    conjunctions; each conjunction is a dict {switch_bb: frozenset(arm values)}. Returns None when
    the DNF exceeds `limit` conjunctions."""
    g = cfg(fn)
    idom = g.idom()
    back = set(g.back_edges())
    # reverse post-order over forward edges
    order, seen = [], set()
    st = [(0, iter(g.succ[0]))]
    seen.add(0)
    while st:
        n, it = st[-1]
        adv = False
        for s in it:
            if (n, s) in back or s in seen:
                continue
            seen.add(s)
            st.append((s, iter(g.succ[s])))
            adv = True
            break
        if not adv:
            order.append(n)
            st.pop()
    rpo = list(reversed(order))
    can_reach = set()
    stack = [bb]
    while stack:
        x = stack.pop()
        if x in can_reach:
            continue
        can_reach.add(x)
        for p in g.pred[x]:
            if (p, x) not in back:
                stack.append(p)
    dnf = {0: [dict()]}
    for n in rpo:
        if n not in can_reach or n not in dnf:
            continue
        if n == bb:
            break
        cur = dnf[n]
        t = fn.blocks[n]['term']
        if t['k'] == 'switch':
            arms = _arms(fn, n)
            by_t = {}
            for v, b in arms:
                by_t.setdefault(b, set()).add(v)
            all_vals = frozenset(v for v, _ in arms)
            for b, vs in by_t.items():
                if (n, b) in back or b not in can_reach:
                    continue
                lit = frozenset(vs)
                new = []
                for c in cur:
                    if lit == all_vals:
                        new.append(c)
                    else:
                        d = dict(c)
                        d[n] = lit if n not in d else (d[n] & lit)
                        if d[n]:
                            new.append(d)
                dnf.setdefault(b, []).extend(new)
        else:
            for b in g.succ[n]:
                if (n, b) in back or b not in can_reach:
                    continue
                dnf.setdefault(b, []).extend(cur)
        for b in g.succ[n]:
            if b in dnf:
                dnf[b] = _simplify(fn, dnf[b])
                if len(dnf[b]) > limit:
                    return None
    return _simplify(fn, dnf.get(bb, []))


def _simplify(fn, conjs):
    # dedupe
    uniq = {}
    for c in conjs:
        uniq[frozenset(c.items())] = c
    conjs = list(uniq.values())
    changed = True
    while changed:
        changed = False
        switches = set()
        for c in conjs:
            switches.update(c.keys())
        for s in switches:
            all_vals = frozenset(v for v, _ in _arms(fn, s))
            groups = {}
            for c in conjs:
                rest = frozenset((k, v) for k, v in c.items() if k != s)
                groups.setdefault(rest, []).append(c)
            new = []
            for rest, cs in groups.items():
                if len(cs) == 1:
                    new.append(cs[0])
                    continue
                vals = frozenset()
                has_free = False
                for c in cs:
                    if s in c:
                        vals |= c[s]
                    else:
                        has_free = True
                d = dict(rest)
                if not has_free and vals != all_vals:
                    d[s] = vals
                new.append(d)
                changed = True
            conjs = new
        # absorption: drop conjunctions implied by a weaker one
        out = []
        for c in conjs:
            absorbed = False
            for d in conjs:
                if d is c:
                    continue
                if all(k in c and c[k] <= d[k] for k in d) and (len(d) < len(c) or any(c[k] < d[k] for k in d)):
                    absorbed = True
                    break
            if not absorbed:
                out.append(c)
        if len(out) != len(conjs):
            changed = True
        conjs = out
    return conjs


def path_conditions(prog, fn, bb, limit=400):
    """DNF of the path condition of bb as lists of canonical condition expressions (same
    vocabulary as cond_exprs). None if too large."""
    d = path_dnf(prog, fn, bb, limit)
    if d is None:
        return None
    out = []
    for conj in d:
        lits = []
        for s in sorted(conj):
            vals = conj[s]
            e, kind, labels, adt = switch_info(prog, fn, s)
            if kind == 'bool':
                labs = {labels.get(v, v) for v in vals}
                if labs == {True}:
                    lits.append(e)
                elif labs == {False}:
                    lits.append(negate(e))
            elif kind == 'enum':
                arms = _arms(fn, s)
                listed = {labels.get(v, v) for v, _ in arms if v != 'otherwise'}
                labs = []
                for v in vals:
                    if v == 'otherwise':
                        labs.extend(str(x) for x in (set(labels.values()) - listed))
                    else:
                        labs.append(str(labels.get(v, v)))
                lits.append(('is', e, tuple(sorted(labs))))
            else:
                lits.append(('switch', e, tuple(sorted(map(str, vals)))))
        out.append(lits)
    return out


def feasible_conj(lits):
    """False if the conjunction contains two literals that cannot hold together: `e is A` and
    `e is B` with A ∩ B = ∅ (enum variants are exclusive), or e and !e."""
    by = {}
    pos, negs = [], []
    for l in lits:
        if isinstance(l, tuple) and l and l[0] == 'is':
            k = repr(l[1])
            by[k] = (by[k] & set(l[2])) if k in by else set(l[2])
            if not by[k]:
                return False
        elif isinstance(l, tuple) and l and l[0] == 'un' and l[1] == 'Not':
            negs.append(repr(l[2]))
        else:
            pos.append(repr(l))
    return not (set(pos) & set(negs))


def feasible_path_conditions(prog, fn, bb, limit=400):
    d = path_conditions(prog, fn, bb, limit)
    return None if d is None else [c for c in d if feasible_conj(c)]
