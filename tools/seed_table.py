#!/usr/bin/env python3
"""Markdown table of the seeded changes and the checks that report them (for DESIGN §11)."""
import json, os
rows = []
for sid in sorted(os.listdir('/verif/seeded')):
    m = json.load(open(os.path.join('/verif/seeded', sid, 'meta.json')))
    det = m.get('detected_by', {})
    own = m.get('property')
    d = '; '.join('%s' % ', '.join(v[:2]) for k, v in sorted(det.items(), key=lambda kv: (kv[0] != own, kv[0]))[:3]) or '**not reported**'
    conf = m.get('confirmation', {}).get('confirmed')
    rows.append('| %s | %s | %s | %s | %s |' % (sid, own, (m.get('summary') or '')[:150].replace('|', '/'), (m.get('needs') or '')[:110].replace('|', '/'), d))
print('| id | property | change | needs, to manifest | reported by |\n|---|---|---|---|---|')
print('\n'.join(rows))
