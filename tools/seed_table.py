#!/usr/bin/env python3
"""Markdown table of the seeded changes and the checks that report them; `--update-design` rewrites
the block between the SEEDED-TABLE markers of DESIGN.md §11."""
import json, os, sys
rows, n, own_n = [], 0, 0
fp = json.load(open('/verif/seeded/first_pass.json'))['first_pass'] if os.path.exists('/verif/seeded/first_pass.json') else {}
stats = {'own': 0, 'sibling': 0, 'none': 0}
first_only_sibling = {'C08-1', 'C08-2', 'C01-1', 'C10-1', 'C05-2', 'C07-1', 'C07-2', 'C09-2', 'C12-2', 'C14-2'}
for sid in sorted(os.listdir('/verif/seeded')):
    mp = os.path.join('/verif/seeded', sid, 'meta.json')
    if not os.path.exists(mp):
        continue
    m = json.load(open(mp))
    det = m.get('detected_by')
    if det is None:
        continue
    own = m.get('property')
    n += 1
    own_n += 1 if own in det else 0
    mine = ', '.join(x.split(' ', 1)[0] + ' `' + x.split(' ', 1)[1] + '`' for x in det.get(own, [])[:2]) or '**not reported by its own check**'
    others = ', '.join(sorted(k for k in det if k != own))
    summ = (m.get('summary') or '').replace('|', '/').replace('\n', ' ')
    if len(summ) > 230:
        summ = summ[:227] + '…'
    first = fp.get(sid, 'own')
    stats[first.split(':')[0]] += 1
    rows.append('| %s | %s | %s | %s | %s |' % (sid, summ, first.replace('sibling:', 'only ').replace('none', '**no check**'), mine, others or '—'))
table = ('%d confirmed seeded changes. First pass (checks as they stood when the change arrived): %d reported by their own property\'s check, %d only by a '
         'sibling property\'s check, %d by no check. Now (after the rules of §5.0.1 were added): %d of %d reported by their own property\'s check.\n\n' % (n, stats['own'], stats['sibling'], stats['none'], own_n, n))
table += '| id | change (one sentence, as delivered by the sub-agent) | first pass | now reported by its own check (rule `key`) | also by |\n|---|---|---|---|---|\n' + '\n'.join(rows) + '\n'
if '--update-design' in sys.argv:
    p = '/verif/DESIGN.md'
    s = open(p).read()
    a, b = '<!-- SEEDED-TABLE-BEGIN -->', '<!-- SEEDED-TABLE-END -->'
    i, j = s.index(a) + len(a), s.index(b)
    open(p, 'w').write(s[:i] + '\n' + table + s[j:])
    print('DESIGN.md updated:', n, 'rows')
else:
    print(table)
