#!/usr/bin/env python3
"""Apply every benign/*.diff (behaviour-preserving variants) to a scratch worktree, run all 20 checks,
expect silence. usage: SEED_REPO=/tmp/w3 benign_eval.py [name-substring]"""
import os, re, subprocess, sys
REPO = os.environ.get('SEED_REPO', '/tmp/w3')
sel = sys.argv[1] if len(sys.argv) > 1 else ''
bad = 0
for name in sorted(os.listdir('/verif/benign')):
    if not name.endswith('.diff') or sel not in name:
        continue
    subprocess.run(['git', '-C', REPO, 'checkout', '-q', '--', '.'])
    subprocess.run(['git', '-C', REPO, 'clean', '-fdq'])
    r = subprocess.run(['git', '-C', REPO, 'apply', os.path.join('/verif/benign', name)], capture_output=True, text=True)
    if r.returncode:
        print(name, 'DOES NOT APPLY', r.stderr[:200]); continue
    alarms = []
    for i in range(1, 21):
        out = subprocess.run(['./check', 'C%02d' % i, '--no-evidence', '--repo', REPO], cwd='/verif', capture_output=True, text=True).stdout
        alarms += re.findall(r'^\[(C\d\d\.\w+)\] ([^:]+:?[^:]*):', out, flags=re.M)
        if 'CHECK-BROKEN' in out:
            alarms.append(('C%02d' % i, 'CHECK-BROKEN'))
    print(name, 'silent' if not alarms else 'ALARMS %s' % alarms[:6], flush=True)
    bad += bool(alarms)
subprocess.run(['git', '-C', REPO, 'checkout', '-q', '--', '.'])
subprocess.run(['git', '-C', REPO, 'clean', '-fdq'])
sys.exit(1 if bad else 0)
