#!/usr/bin/env python3
"""Regenerate spec/known_functions.json: every workspace function (not closures) of the reviewed tree,
over the default and all thorough-tier feature configurations. Run by hand on a tree whose rules were
confirmed; never at check time."""
import json, os, sys
sys.path.insert(0, os.path.dirname(os.path.dirname(os.path.abspath(__file__))))
from sa.extract import extract
from sa.facts import Program
from sa.thorough import FEATURES
repo = sys.argv[1] if len(sys.argv) > 1 else '/repo'
names = set()
adts = set()
for feat in [''] + FEATURES:
    d, info = extract(repo, features=feat)
    prog = Program(d, inline=False)
    names.update(f.short for f in prog.fns.values() if f.kind in ('Fn', 'AssocFn'))
    adts.update(k for k in prog.adts if '<' not in k and '::_::' not in k)
out = os.path.join(os.path.dirname(os.path.dirname(os.path.abspath(__file__))), 'spec', 'known_functions.json')
json.dump({'note': 'workspace functions of the reviewed tree (anchors the rules may name); functions not listed here are inlined into their callers (sa/inline.py)',
           'functions': sorted(names), 'adts': sorted(adts)}, open(out, 'w'), indent=0)
print(len(names), 'functions ->', out)
