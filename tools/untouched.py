#!/usr/bin/env python3
"""List workspace functions that no rule of any property looks at (global blind-spot list).
usage: tools/untouched.py [--repo DIR]"""
import importlib, os, sys
VERIF = os.path.dirname(os.path.dirname(os.path.abspath(__file__)))
sys.path.insert(0, VERIF)
from sa.extract import extract
from sa.facts import Program
from sa.engine import Ctx
repo = sys.argv[sys.argv.index('--repo') + 1] if '--repo' in sys.argv else '/repo'
facts_dir, info = extract(repo)
prog = Program(facts_dir)
touched = {}
for i in range(1, 21):
    p = 'C%02d' % i
    mod = importlib.import_module('rules.%s' % p.lower())
    ctx = Ctx(p, prog, 'quick')
    mod.run(ctx)
    for fid in ctx.stats['functions_analysed']:
        if fid in prog.fns:
            touched.setdefault(prog.root_of(prog.fns[fid]).id, set()).add(p)
SKIP = ('core::fmt', 'serde', 'core::clone', 'core::cmp', 'core::default', 'core::hash', 'candid')
allf = {}
for f in prog.fns.values():
    r = prog.root_of(f)
    if r.exp or r.kind not in ('Fn', 'AssocFn') or (r.impl_trait or '').startswith(SKIP):
        continue
    allf[r.id] = r
un = sorted(i for i in allf if i not in touched)
print('%d workspace root functions, %d touched by some rule, %d by none' % (len(allf), len(allf) - len(un), len(un)))
for i in un:
    f = allf[i]
    print('  %-100s %s blocks=%d' % (f.short, getattr(f, 'file', ''), len(f.blocks)))
