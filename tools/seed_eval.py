#!/usr/bin/env python3
"""Apply a seeded change to /repo (or to the scratch worktree named by SEED_REPO), run every check, undo.
usage: seed_eval.py <patch.diff> [PROP ...]"""
import subprocess, sys, re, json, os
patch = sys.argv[1]
REPO = os.environ.get('SEED_REPO', '/repo')
props = sys.argv[2:] or ['C%02d' % i for i in range(1, 21)]
assert subprocess.run(['git', '-C', REPO, 'status', '--porcelain', '--untracked-files=no'], capture_output=True, text=True).stdout.strip() == '', REPO + ' not clean'
r = subprocess.run(['git', '-C', REPO, 'apply', patch], capture_output=True, text=True)
if r.returncode != 0:
    print('APPLY FAILED', r.stderr[:500]); sys.exit(3)
res = {}
try:
    for p in props:
        out = subprocess.run(['./check', p, '--no-evidence', '--repo', REPO], cwd='/verif', capture_output=True, text=True).stdout
        hits = re.findall(r'^\[(C\d\d\.\w+)\] ([^:]+):', out, flags=re.M)
        broken = 'CHECK-BROKEN' in out
        if hits or broken:
            res[p] = ['%s %s' % h for h in hits] + (['CHECK-BROKEN ' + out[-300:]] if broken else [])
finally:
    subprocess.run(['git', '-C', REPO, 'checkout', '--', '.'])
print(json.dumps(res, indent=1))
