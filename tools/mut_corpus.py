#!/usr/bin/env python3
"""developer aid: apply scripted mutants of mutants/corpus.json in a scratch worktree and run the property's check.
usage: mut_corpus.py PROP [name ...]   (env W = scratch worktree, default /tmp/w2)"""
import json, os, re, subprocess, sys
W = os.environ.get('W', '/tmp/w2')
prop = sys.argv[1]
names = set(sys.argv[2:])
if not os.path.isdir(W):
    subprocess.run(['git', '-C', '/repo', 'worktree', 'add', '--detach', W, 'HEAD'], check=True, capture_output=True)
for m in json.load(open('/verif/mutants/corpus.json'))['mutants'].get(prop, []):
    if names and m['name'] not in names:
        continue
    subprocess.run(['git', '-C', W, 'checkout', '-q', '--', '.'])
    p = os.path.join(W, m['file'])
    s = open(p).read()
    s2, n = re.subn(m['regex'], m['replacement'], s)
    if n != 1:
        print(prop, m['name'], 'STALE: regex matched %d times' % n)
        continue
    open(p, 'w').write(s2)
    out = subprocess.run(['./check', prop, '--no-evidence', '--repo', W], cwd='/verif', capture_output=True, text=True).stdout
    hits = re.findall(r'^\[(C\d\d\.\w+)\] (.+?): \S* :: ', out, flags=re.M)
    exp = {'%s.%s' % (prop, r) for r in m['expect_rules']}
    got = {h[0] for h in hits}
    print(prop, m['name'], 'REPORTED' if exp & got else 'MISSED', sorted({'%s %s' % h for h in hits})[:4], '' if 'CHECK-BROKEN' not in out else out[-300:])
subprocess.run(['git', '-C', W, 'checkout', '-q', '--', '.'])
