#!/usr/bin/env python3
"""Regenerates /verif/MANIFEST.json from the per-rule module metadata (CLAIMED table below)."""
import importlib, json, os, sys
VERIF = os.path.dirname(os.path.dirname(os.path.abspath(__file__)))
sys.path.insert(0, VERIF)

PROPS = ['C%02d' % i for i in range(1, 21)]
PENDING_REASON = ('static rules for this property are specified in DESIGN.md §5 but not yet implemented in this '
                  'revision of /verif; nothing is claimed until they run')

BASELINE = ("cd /repo && cargo nextest run --workspace --no-fail-fast --test-threads 8 --offline "
            "|| cargo test --workspace --no-fail-fast --offline")


def main():
    checks, na = [], []
    for p in PROPS:
        path = os.path.join(VERIF, 'rules', p.lower() + '.py')
        if not os.path.exists(path):
            na.append({'property_id': p, 'reason': PENDING_REASON})
            continue
        m = importlib.import_module('rules.' + p.lower())
        if getattr(m, 'NOT_APPLICABLE', None):
            na.append({'property_id': p, 'reason': m.NOT_APPLICABLE})
            continue
        checks.append({
            'property_id': p,
            'quick_cmd': './check %s --tier quick' % p,
            'thorough_cmd': './check %s --tier thorough' % p,
            'evidence_file': 'evidence/%s.json' % p,
            'replay_cmd_template': './check %s --replay {path}' % p,
            'engine': 'mirfacts+rules',
            'level_claimed': {
                'category': 'other',
                'text': m.EXPLANATION + ' Rules as built (incl. those added after the seeded-change rounds, DESIGN §5.0.1): '
                        + '; '.join('%s = %s' % kv for kv in getattr(m, 'RULES', {}).items()),
                'design_ref': 'DESIGN.md §5 ' + p,
            },
            'level_note': 'Static analysis of the type-checked program (rustc nightly MIR, resolved callees). Trusted: rustc MIR '
                          'construction and trait resolution, the mirfacts extractor, external crates at the call boundary. '
                          'Decides only the structural clauses listed; the behavioural remainder is undecided (DESIGN §9). '
                          + ' '.join(getattr(m, 'ASSUMPTIONS', [])),
            'technique': getattr(m, 'TECHNIQUE', 'custom MIR-level static analysis: call-graph reachability, dominance/gating on the CFG, '
                                                 'who-may-write tables, expression/decision-table extraction'),
        })
    man = {
        'version': 1,
        'setup_cmd': 'cd /verif && python3 sa/extract.py /repo',
        'hooks': {
            'guard': 'dfinity_bitcoin_canister_verif',
            'enable': 'none needed: static analysis reads the unmodified sources (no instrumentation hooks in /repo)',
            'baseline_off_cmd': BASELINE,
            'source_commits': [],
            'add_only': True,
        },
        'engines': [
            {'name': 'mirfacts', 'path': 'mirfacts/', 'serves_properties': [c['property_id'] for c in checks],
             'kind_free_text': 'rustc_private driver (RUSTC_WORKSPACE_WRAPPER under cargo +nightly check) dumping pre-borrowck MIR, resolved callees, ADTs, impls, consts, coroutine layouts as JSON facts'},
            {'name': 'rules', 'path': 'sa/ rules/ check', 'serves_properties': [c['property_id'] for c in checks],
             'kind_free_text': 'Python rule engine over the fact base: CFG dominance / gating, call-graph reachability, writers/readers, EXPR/PRED reconstruction, decision tables, exact path conditions, bounded inlining of unknown helpers'},
        ],
        'checks': checks,
        'not_applicable': na,
        'notes': 'All checks share one fact extraction per tree state (memo keyed by content hash of the working tree). '
                 'Exit 2 + CHECK-BROKEN means the machinery could not run (e.g. the repository does not build).',
    }
    json.dump(man, open(os.path.join(VERIF, 'MANIFEST.json'), 'w'), indent=1)
    print('claimed', [c['property_id'] for c in checks], 'n/a', [x['property_id'] for x in na])


if __name__ == '__main__':
    main()
