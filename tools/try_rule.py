#!/usr/bin/env python3
"""developer aid: run one rule function and print its obligations. usage: try_rule.py module.func [--repo DIR] [args...]"""
import importlib, os, sys
VERIF = os.path.dirname(os.path.dirname(os.path.abspath(__file__)))
sys.path.insert(0, VERIF)
from sa.extract import extract
from sa.facts import Program
from sa.engine import Ctx
args = sys.argv[1:]
repo = '/repo'
if '--repo' in args:
    i = args.index('--repo'); repo = args[i + 1]; del args[i:i + 2]
d, _ = extract(repo)
prog = Program(d)
for spec in args:
    m, fn = spec.rsplit('.', 1)
    mod = importlib.import_module('rules.' + m)
    ctx = Ctx('CXX', prog, 'quick')
    getattr(mod, fn)(ctx, 'RX') if m in ('atoms', 'plumbing', 'codecs') else getattr(mod, fn)(ctx)
    for o in ctx.obs:
        print('  %-10s %-6s %-50s %s  %s' % (o.status, o.rule, o.key, o.site, o.msg))
