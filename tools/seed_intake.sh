#!/bin/bash
# usage: seed_intake.sh <tag> <id>   e.g. seed_intake.sh C18e C18-5 — confirm a delivered change in its own scratch worktree/target, then record which checks report it
set -u
tag=$1; id=$2
cd /verif
SEED_W=/tmp/wconf-$tag SEED_T=/tmp/seed/$tag-target python3 tools/seed_confirm.py /tmp/seed/$tag-out $id 2>&1 | grep -v "^WARNING" | tail -2
