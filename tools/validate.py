#!/usr/bin/env python3-vt
import json, jsonschema, glob, sys
jsonschema.validate(json.load(open('/verif/MANIFEST.json')), json.load(open('/root/.vp/MANIFEST.schema.json')))
s = json.load(open('/root/.vp/EVIDENCE.schema.json'))
for f in sorted(glob.glob('/verif/evidence/*.json')):
    jsonschema.validate(json.load(open(f)), s)
print('manifest + %d evidence files valid' % len(glob.glob('/verif/evidence/*.json')))
