#!/usr/bin/env python3
"""Confirm a seeded change in a scratch worktree (outside /repo and /verif) and file it under
/verif/seeded/<id>/. usage: seed_confirm.py <seed-dir> <id>
Confirms: (1) the demo passes on the unchanged tree, (2) with the patch the workspace crates it
touches still build and their existing tests give the baseline result, (3) the demo fails."""
import json, os, re, shutil, subprocess, sys
seed, sid = sys.argv[1].rstrip('/'), sys.argv[2]
W, T = os.environ.get('SEED_W', '/tmp/wconf'), os.environ.get('SEED_T', '/tmp/seed/base-target')
CRATE = {'canister': 'ic-btc-canister', 'validation': 'ic-btc-validation', 'watchdog': 'watchdog', 'interface': 'ic-btc-interface',
         'ic-cdk-bitcoin-canister': 'ic-cdk-bitcoin-canister', 'types': 'ic-btc-types', 'ic-http': 'ic-http'}
ALWAYS_FAIL = {'tests::mainnet_100k_blocks', 'tests::testnet_10k_blocks', 'header::tests::mainnet_next_targets', 'header::tests::testnet_next_targets'}


def sh(cmd, **kw):
    return subprocess.run(cmd, shell=True, capture_output=True, text=True, **kw)


def cargo_test(crate, filt='', target='--lib'):
    r = sh('cd %s && CARGO_TARGET_DIR=%s cargo test --offline -p %s %s %s 2>&1' % (W, T, crate, target, filt))
    out = r.stdout
    failed = set(re.findall(r'^test (\S+)(?: - should panic)? \.\.\. FAILED', out, flags=re.M))
    m = re.search(r'test result: \w+\. (\d+) passed; (\d+) failed', out)
    built = 'error: could not compile' not in out and 'error[' not in out
    return {'built': built, 'passed': int(m.group(1)) if m else None, 'failed_n': int(m.group(2)) if m else None, 'failed': sorted(failed), 'tail': out[-600:] if not m else ''}


head = sh('git -C /repo rev-parse HEAD').stdout.strip()
sh('git -C /repo worktree remove --force %s' % W)
sh('git -C /repo worktree add --detach %s %s' % (W, head))
md = open(os.path.join(seed, 'demo.md')).read()
m = re.search(r'[Cc]opy `demo\.rs` to \**`([^`]+)`', md) or re.search(r'^\s{4}(\S+\.rs)\s*$', md, flags=re.M)
assert m, 'cannot find demo destination in demo.md'
dest = m.group(1)
mod = os.path.basename(dest)[:-3]
d = os.path.dirname(dest)
integration = dest.split('/')[1] == 'tests'
parent = d + '/lib.rs' if d.endswith('/src') else (d + '/mod.rs' if os.path.exists(os.path.join(W, d, 'mod.rs')) else d + '.rs')
crate = CRATE[dest.split('/')[0]]
os.makedirs(os.path.join(W, d), exist_ok=True)
shutil.copy(os.path.join(seed, 'demo.rs'), os.path.join(W, dest))
if not integration:
    open(os.path.join(W, parent), 'a').write('\n#[cfg(test)]\nmod %s;\n' % mod)
res = {'id': sid, 'repo_head': head, 'demo_dest': dest, 'demo_mod_added_to': None if integration else parent, 'crate': crate}
res['demo_without_change'] = cargo_test(crate, '' if integration else mod, '--test ' + mod if integration else '--lib')
ap = sh('git -C %s apply %s' % (W, os.path.join(seed, 'patch.diff')))
res['patch_applies'] = ap.returncode == 0
touched = sorted({CRATE[l.split('/')[1]] for l in open(os.path.join(seed, 'patch.diff')) if l.startswith('+++ b/') and l.split('/')[1] in CRATE})
res['crates_touched'] = touched
res['with_change'] = {}
for c in sorted(set(touched + [crate])):
    res['with_change'][c] = cargo_test(c)
if integration:
    res['with_change'][crate + ' --test ' + mod] = cargo_test(crate, '', '--test ' + mod)
    demo_fail = res['with_change'][crate + ' --test ' + mod]['failed']
    res['with_change'][crate + ' --test ' + mod]['failed'] = []
else:
    demo_fail = [t for t in res['with_change'][crate]['failed'] if mod in t]
other_fail = [t for c in res['with_change'] for t in res['with_change'][c]['failed'] if mod not in t and t not in ALWAYS_FAIL]
res['confirmed'] = bool(res['patch_applies'] and all(v['built'] for v in res['with_change'].values()) and res['demo_without_change']['failed_n'] == 0 and
                        (res['demo_without_change']['passed'] or 0) >= 1 and demo_fail and not other_fail)
res['demo_fails_with_change'] = demo_fail
res['unexpected_failures_with_change'] = other_fail
sh('git -C /repo worktree remove --force %s' % W)
out = os.path.join('/verif/seeded', sid)
os.makedirs(out, exist_ok=True)
for f in ('patch.diff', 'demo.rs', 'demo.md'):
    shutil.copy(os.path.join(seed, f), os.path.join(out, f))
meta = json.load(open(os.path.join(seed, 'meta.json')))
meta['confirmation'] = res
json.dump(meta, open(os.path.join(out, 'meta.json'), 'w'), indent=1)
print(sid, 'CONFIRMED' if res['confirmed'] else 'NOT CONFIRMED', json.dumps({k: res[k] for k in ('demo_fails_with_change', 'unexpected_failures_with_change')}))
