#!/usr/bin/env python3
"""Write sub-agent prompts for another round of independent seeded changes: the agent sees only the
property's text, its scratch worktree and one-sentence summaries of what others already proposed
(so that it looks elsewhere) — nothing from /verif. usage: seed_prompts.py <suffix> [PROP ...]"""
import glob, json, os, re, sys
suffix = sys.argv[1]
props = {json.loads(l)['id']: json.loads(l) for l in open('/verif/properties.jsonl')}
ids = sys.argv[2:] or sorted(props)
tmpl = open('/verif/tools/seed_prompt_template.txt').read()
head, rest = tmpl.split('PROPERTY C01 ', 1)
task = rest[rest.index('TASK.'):rest.index('ALREADY PROPOSED')]
tail = rest[rest.index('DELIVERABLES'):]
os.makedirs('/tmp/seed/prompts', exist_ok=True)
for pid in ids:
    p = props[pid]
    tag = pid + suffix
    done = []
    for m in sorted(glob.glob('/verif/seeded/%s-*/meta.json' % pid)):
        s = json.load(open(m)).get('summary')
        if s:
            done.append(s)
    text = head.replace('C01b', tag)
    text += 'PROPERTY %s — "%s"\nStatement: %s\nQuantified over: %s\n\n' % (pid, p['title'], p['statement'], p['quantifier']['text'])
    text += task
    text += 'ALREADY PROPOSED BY OTHERS — do NOT repeat these or close variants of them (pick different functions, different mechanisms, ideally different files; think about parts of the statement these do not touch):\n'
    text += ''.join('  - %s\n' % d for d in done) + '\n'
    text += tail.replace('C01b', tag).replace('"property": "C01"', '"property": "%s"' % pid)
    open('/tmp/seed/prompts/%s.txt' % tag, 'w').write(text)
    print(tag, len(done), 'already proposed')
