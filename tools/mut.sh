#!/bin/bash
# usage: tools_mut.sh <PROP> <sed-expr> <file>   — apply a one-line edit in scratch worktree /tmp/w1, run the check, revert
set -u
W=${W:-/tmp/w2}
P=$1; shift
EXPR=$1; shift
F=$1; shift
cd $W && git checkout -q -- . && sed -i -E "$EXPR" "$F" && git diff --stat | tail -1
if git diff --quiet; then echo "MUTANT DID NOT APPLY"; exit 3; fi
cd /verif && ./check $P --repo $W "$@" | grep -v "^  discharged" | tail -15
cd $W && git checkout -q -- .
