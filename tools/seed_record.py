#!/usr/bin/env python3
"""Run all 20 checks against each confirmed seeded change under /verif/seeded/<id>/ (apply to /repo,
run, undo) and store which checks report it in meta.json['detected_by']. usage: seed_record.py [id ...]"""
import json, os, re, subprocess, sys
ids = sys.argv[1:] or sorted(os.listdir('/verif/seeded'))
REPO = os.environ.get('SEED_REPO', '/repo')  # a scratch worktree at /repo's HEAD may stand in while /repo is busy
for sid in ids:
    d = os.path.join('/verif/seeded', sid)
    meta = json.load(open(os.path.join(d, 'meta.json')))
    assert subprocess.run(['git', '-C', REPO, 'status', '--porcelain', '--untracked-files=no'], capture_output=True, text=True).stdout.strip() == '', '/repo not clean'
    r = subprocess.run(['git', '-C', REPO, 'apply', os.path.join(d, 'patch.diff')], capture_output=True, text=True)
    if r.returncode != 0:
        print(sid, 'APPLY FAILED', r.stderr[:300]); continue
    res = {}
    try:
        for i in range(1, 21):
            p = 'C%02d' % i
            out = subprocess.run(['./check', p, '--no-evidence', '--repo', REPO], cwd='/verif', capture_output=True, text=True).stdout
            hits = re.findall(r'^\[(C\d\d\.\w+)\] (.+?): \S* :: ', out, flags=re.M)
            if 'CHECK-BROKEN' in out:
                res[p] = ['CHECK-BROKEN']
            elif hits:
                res[p] = sorted({'%s %s' % h for h in hits})
    finally:
        subprocess.run(['git', '-C', REPO, 'checkout', '--', '.'])
    meta['detected_by'] = res
    meta['detected_by_own_property_check'] = meta.get('property') in res
    meta['what_was_run'] = 'git -C %s apply seeded/%s/patch.diff; ./check C01..C20 --no-evidence --repo %s; git -C %s checkout -- .' % (REPO, sid, REPO, REPO)
    json.dump(meta, open(os.path.join(d, 'meta.json'), 'w'), indent=1)
    print(sid, meta.get('property'), 'own-check' if meta['detected_by_own_property_check'] else ('sibling-only' if res else 'MISSED'), {k: v[:2] for k, v in res.items()})
