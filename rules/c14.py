"""C14 — Data endpoints are gated by access flag, network and sync status (DESIGN §5 C14)."""
import re
from sa.cfg import cfg
from sa.expr import ex, cond_exprs, show, canon, walk, is_field, const_val, is_call
from sa.guards import GateAnalysis
from sa.util import panic_blocks, the_closure, fmt_conds, mentions_field, mentions_call, return_blocks
from sa.dataflow import writers

EXPLANATION = (
    "Decides, on the resolved MIR of the current tree: R1 the gate matrix over every exported canister method "
    "(exhaustive over the export table of the canister binary): on every call path from a gated bitcoin_* export, "
    "every access to canister state, cycles or inter-canister calls is dominated by verify_api_access, "
    "verify_network(request.network) and (except send_transaction) verify_synced; ungated endpoints reach no verifier; "
    "R2 the predicate of each verifier (flag == Disabled; network != requested; sync rule with SYNCED_THRESHOLD = 2 "
    "against max(announced max height or 0, height)); R3 gates precede effects (same walk: with_state_mut, "
    "msg_cycles_accept and runtime calls are sinks); R4 who writes the announced-header bookkeeping. "
    "Does NOT decide: correctness of announced-header heights over arbitrary histories (a value-level fact).")
RULES = {
    'R1': 'gate matrix: DOM of the three verifiers over every state/cycles/call access on every call path of each exported endpoint',
    'R2': 'verifier semantics: PRED of each panic/return arm of the three verifiers and EXPR of is_synced; height = best-chain height (= C02.R6)',
    'R3': 'no effect (with_state_mut, msg_cycles_accept, inter-canister call) before the gates',
    'R4': 'WRITERS of the announced-header bookkeeping are the three bookkeeping functions',
    'R5': 'EXPR/TABLE of the announced-header height bookkeeping the sync gate reads',
    'R6': 'every state field the three gates read is carried across upgrades (serialised, or re-attached stable memory)',
    'R7': 'the flags and the network the gates read are the configured ones: Config::from(InitConfig) carries every field (default otherwise), init copies api_access / disable_api_if_not_fully_synced / network into the state unconditionally, set_config overwrites each setting from the request field of the same name',
}
ASSUMPTIONS = ['a trap rolls back all state changes of the message (IC semantics); R3 shows that nothing precedes the gates anyway']

VERIFIERS = {
    'api_access': ['ic_btc_canister::verify_api_access'],
    'network': ['ic_btc_canister::verify_network'],
    'synced': ['ic_btc_canister::verify_synced'],
}
# state / effect access points: nothing observable can be computed without going through these
SINKS = ('ic_btc_canister::with_state', 'ic_btc_canister::with_state_mut', 'ic_btc_canister::runtime::msg_cycles_accept',
         'ic_btc_canister::runtime::call_*', 'ic_btc_canister::runtime::msg_cycles_available', 'ic_btc_canister::charge_cycles')
GATED = {
    'bitcoin_get_balance': {'api_access', 'network', 'synced'},
    'bitcoin_get_balance_query': {'api_access', 'network', 'synced'},
    'bitcoin_get_utxos': {'api_access', 'network', 'synced'},
    'bitcoin_get_utxos_query': {'api_access', 'network', 'synced'},
    'bitcoin_get_block_headers': {'api_access', 'network', 'synced'},
    'bitcoin_get_current_fee_percentiles': {'api_access', 'network', 'synced'},
    'bitcoin_send_transaction': {'api_access', 'network'},
}
UNGATED = {'get_config', 'get_blockchain_info', 'http_request'}
# exported methods that are neither data endpoints nor listed as always-answering by the property
OTHER = {'set_config': 'controller/watchdog-only configuration endpoint (own caller check; C14 does not cover it)',
         'has_canbench': 'exists only under the canbench-rs cargo feature (benchmark build, never deployed)'}


def exported(prog):
    out = {}
    for f in prog.fns.values():
        if f.target == 'ic_btc_canister.bin' and f.export_name:
            m = re.match(r'canister_(update|query)[ .](.+)$', f.export_name)
            if m:
                out[m.group(2)] = (m.group(1), f)
    return out


def run(ctx):
    prog = ctx.prog
    exp = exported(prog)
    ctx.floor('R1', 'exported update/query methods', len(exp), 11)
    ga = GateAnalysis(prog, VERIFIERS, ctx)
    vfns = {lab: ctx.fn('R1', pats[0]) for lab, pats in VERIFIERS.items()}
    if any(v is None for v in vfns.values()):
        return
    is_sink = lambda c: c.matches(*SINKS)
    n_gated = 0
    for name, (kind, f) in sorted(exp.items()):
        if name.startswith('bitcoin_') and name not in GATED:
            # a new data endpoint: the property demands all three gates (send_transaction is the only exemption)
            req = {'api_access', 'network', 'synced'}
        elif name in GATED:
            req = GATED[name]
        elif name in UNGATED:
            reach = prog.reach([f])
            hit = [lab for lab, v in vfns.items() if v.id in reach]
            ctx.check(not hit, 'R1', 'ungated:' + name, f,
                      '%s reaches none of the three verifiers (answers regardless)' % name,
                      '%s must answer regardless of flags but reaches verifier(s) %s' % (name, hit))
            continue
        elif name in OTHER:
            ctx.ok('R1', 'other:' + name, f, OTHER[name], nontrivial=False)
            continue
        else:
            # an export the property does not name: harmless if it touches no canister state (a version
            # or health string); one that reads or writes state without the gates needs classifying
            res = ga.walk(f, is_sink, {'api_access', 'network', 'synced'})
            loose = [(c, path, miss) for c, path, miss in (res or []) if miss]
            if loose:
                ctx.unknown('R1', 'unclassified:' + name, f, 'exported method %s is not in the endpoint table of C14 and accesses state (%s) without the gates (missing %s)'
                            % (name, loose[0][0].short, sorted(loose[0][2])))
            else:
                ctx.ok('R1', 'unclassified:' + name, f, 'exported method %s is not a data endpoint named by the property and reaches no ungated state access' % name, nontrivial=False)
            continue
        n_gated += 1
        res = ga.walk(f, is_sink, req)
        if not res:
            ctx.unknown('R1', 'gated:' + name, f, 'no state access found under %s (anchor lost)' % name)
            continue
        bad = [(c, path, miss) for c, path, miss in res if miss]
        if bad:
            c, path, miss = bad[0]
            ctx.bad('R1', 'gated:' + name, c,
                    '%s: state/effect access %s in %s is not dominated by gate(s) %s on call path %s (%d such site(s))'
                    % (name, c.short, c.fn.short, miss, ' -> '.join(p.short for p in path), len(bad)))
        else:
            ctx.ok('R1', 'gated:' + name, f, '%s: all %d state/effect access sites on all call paths are dominated by %s'
                   % (name, len(res), sorted(req)))
        # the network gate must receive the request's own network
        reach_fns = prog.reach([f])
        vn = [c for c in reach_fns.values() for c in c.calls_to(*VERIFIERS['network'])]
        okarg = True

        def arg_from_request(fn_, e, depth=0):
            if mentions_field(e, 'network'):
                return True
            # the gates may live in a helper that receives the network as a parameter: follow to its call sites
            if e[0] == 'param' and depth < 3:
                sites = [c2 for g_ in reach_fns.values() for c2 in g_.calls() if c2.callee == fn_.id and not c2.cleanup]
                return bool(sites) and all(arg_from_request(c2.fn, ex(prog, c2.fn).operand(c2.args[e[1] - 1]), depth + 1) for c2 in sites)
            return False
        for c in vn:
            e = ex(prog, c.fn).operand(c.args[0])
            if not arg_from_request(c.fn, e):
                okarg = False
                ctx.bad('R1', 'network-arg:' + name, c, 'verify_network is not given the request\'s network: %s' % show(e))
        if vn and okarg:
            ctx.ok('R1', 'network-arg:' + name, vn[0], 'verify_network argument derives from request.network')
        if 'synced' not in req:
            reach = prog.reach([f])
            ctx.check(vfns['synced'].id not in reach, 'R1', 'exempt-sync:' + name, f,
                      '%s does not reach verify_synced (exempt from the sync rule)' % name,
                      '%s must be exempt from the sync rule but reaches verify_synced' % name)
    ctx.floor('R1', 'gated endpoints', n_gated, 7)
    r2(ctx, vfns)
    r4(ctx)
    r5(ctx)
    r6(ctx, vfns)


def r2(ctx, vfns):
    prog = ctx.prog
    # --- verify_api_access: panics iff api_access == Disabled
    cl = the_closure(prog, vfns['api_access'], ctx, 'R2')
    if cl:
        ctx.touch(cl)
        pbs = panic_blocks(cl)
        conds = [cond_exprs(prog, cl, b) for b in pbs]
        good = (len(pbs) == 1 and len(conds[0]) == 1 and conds[0][0][0] == 'bin' and conds[0][0][1] == 'Eq'
                and mentions_field(conds[0][0], 'api_access', '*State') and 'Flag::Disabled' in show(conds[0][0]))
        # and no other exit is conditional on anything
        ctx.check(good, 'R2', 'verify_api_access', cl, 'panics exactly under api_access == Flag::Disabled',
                  'verify_api_access panic condition is %s' % [fmt_conds(c) for c in conds])
    # --- verify_network: panics iff state.network() != requested
    cl = the_closure(prog, vfns['network'], ctx, 'R2')
    if cl:
        ctx.touch(cl)
        pbs = panic_blocks(cl)
        # several panic-related blocks (format args) may exist; take the dominating condition of each
        conds = {fmt_conds(cond_exprs(prog, cl, b)): cond_exprs(prog, cl, b) for b in pbs}
        good = False
        if len(conds) == 1:
            c = list(conds.values())[0]
            if len(c) == 1 and c[0][0] == 'bin' and c[0][1] == 'Ne':
                # the two networks themselves are compared, not a coarser image of them (a conversion that
                # merges testnet and regtest lets one answer for the other)
                sides = (c[0][2], c[0][3])
                is_state_net = lambda x: isinstance(x, tuple) and x[0] == 'call' and x[1].endswith('::network') and len(x[2]) == 1 and x[2][0][0] in ('param', 'upvar')
                is_req = lambda x: isinstance(x, tuple) and x[0] == 'upvar' and x[1] == 'network'
                good = (is_state_net(sides[0]) and is_req(sides[1])) or (is_state_net(sides[1]) and is_req(sides[0]))
        ctx.check(good, 'R2', 'verify_network', cl, 'panics exactly under state.network() != requested network',
                  'verify_network panic condition is %s' % list(conds.keys()))
    # the request's network name maps to the network of the same name (both spellings)
    conv = [f for f in prog.fns.values() if f.short == '<ic_btc_interface::Network as core::convert::From>::from' and f.kind != 'Closure'
            and f.locals[1]['ty'].get('adt') == 'ic_btc_interface::NetworkInRequest']
    if len(conv) != 1:
        ctx.unknown('R2', 'request-network-conversion', '', 'From<NetworkInRequest> for Network not found')
    else:
        from sa.util import table as _table
        ctx.touch(conv[0])
        got = {}
        for _, v, cs in _table(prog, conv[0]):
            if v[0] == 'agg' and len(cs) == 1 and cs[0][0] == 'is':
                for lab in cs[0][2]:
                    got[lab] = v[3]
        want = {'Mainnet': 'Mainnet', 'mainnet': 'Mainnet', 'Testnet': 'Testnet', 'testnet': 'Testnet', 'Regtest': 'Regtest', 'regtest': 'Regtest'}
        ctx.check(got == want, 'R2', 'request-network-conversion', conv[0], 'NetworkInRequest -> Network maps every spelling to the network of the same name',
                  'NetworkInRequest -> Network is %s' % got)
    # --- verify_synced
    cl = the_closure(prog, vfns['synced'], ctx, 'R2')
    if cl:
        ctx.touch(cl)
        pbs = panic_blocks(cl)
        conds = [cond_exprs(prog, cl, b) for b in pbs]
        good = False
        if len(pbs) == 1 and len(conds[0]) == 2:
            c0, c1 = conds[0]
            good = (c0[0] == 'bin' and c0[1] == 'Ne' and mentions_field(c0, 'disable_api_if_not_fully_synced') and 'Flag::Disabled' in show(c0)
                    and c1 == canon(('un', 'Not', ('call', 'ic_btc_canister::is_synced', ()))))
        ctx.check(good, 'R2', 'verify_synced', cl,
                  'panics exactly under disable_api_if_not_fully_synced != Disabled && !is_synced()',
                  'verify_synced panic condition is %s' % [fmt_conds(c) for c in conds])
    # --- is_synced expression and threshold
    f = ctx.fn('R2', 'ic_btc_canister::is_synced')
    if f:
        cl = the_closure(prog, f, ctx, 'R2')
        if cl:
            ctx.touch(cl)
            e = ex(prog, cl).local(0)
            want_rhs = ('bin', 'Add')
            good = False
            why = show(e)
            if e[0] == 'bin' and e[1] == 'Le':
                lhs, rhs = e[2], e[3]
                h = ('call', 'ic_btc_canister::state::main_chain_height', (('param', 2, 'state'),))
                thr = [x for x in walk(rhs) if x[0] == 'item' and x[1].endswith('SYNCED_THRESHOLD')]
                good = (rhs[0] == 'bin' and rhs[1] == 'Add' and h in (rhs[2], rhs[3]) and len(thr) == 1 and thr[0][2] == 2
                        and lhs[0] == 'call' and lhs[1] == 'max' and h in lhs[2]
                        and any(is_call(a, 'core::option::Option::unwrap_or') and const_val(a[2][1]) == 0 and
                                mentions_call(a, '*::next_block_headers_max_height') for a in lhs[2]))
            ctx.check(good, 'R2', 'is_synced', cl,
                      'is_synced = max(announced_max.unwrap_or(0), height) <= height + SYNCED_THRESHOLD(2)',
                      'is_synced computes %s' % why)
    # the `height` the sync gate compares announced headers with is the best chain's (heaviest, not
    # longest) tip height (shared with C02.R6)
    from sa.engine import SubCtx
    from rules import c02
    c02.r5_r6(SubCtx(ctx, {'R6': 'R2'}))


def r4(ctx):
    prog = ctx.prog
    allowed = {
        'ic_btc_canister::unstable_blocks::GenericUnstableBlocks::insert_next_block_header',
        'ic_btc_canister::unstable_blocks::push', 'ic_btc_canister::unstable_blocks::pop',
        'ic_btc_canister::unstable_blocks::GenericUnstableBlocks::new_with',
        'ic_btc_canister::unstable_blocks::GenericUnstableBlocks::new',
    }
    ws = writers(prog, '*::GenericUnstableBlocks', 'next_block_headers')
    found = set()
    for w in ws:
        root = prog.root_of(w.fn)
        found.add(root.short)
        ctx.touch(w.fn)
    extra = sorted(x for x in found if x not in allowed and '<' not in x)
    extra += sorted(x for x in found if '<' in x and 'Deserialize' not in x and 'serde' not in x)
    ctx.check(not extra, 'R4', 'writers:next_block_headers', '',
              'writers of GenericUnstableBlocks.next_block_headers: %s' % sorted(found),
              'unexpected writer(s) of the announced-header bookkeeping: %s' % extra)
    ctx.floor('R4', 'writers of next_block_headers', len(found), 3)


def r5(ctx):
    from sa import pat as P
    from sa.util import table, find_locals, is_var, describe_table
    from sa.expr import ex
    prog = ctx.prog
    # every announced header of a response is considered: one that is already tracked is skipped, it does
    # not end the batch (the new headers behind it raise the height the sync gate reads)
    inh = ctx.fn('R5', 'ic_btc_canister::state::insert_next_block_headers')
    if inh:
        from sa.expr import switch_info
        g_ = cfg(inh)
        sw = None
        for bi, b in enumerate(inh.blocks):
            if b['term']['k'] == 'switch' and not b.get('cleanup'):
                e_, kind, labels, _ = switch_info(prog, inh, bi)
                if kind == 'bool' and P.call('*::has_next_block_header', P.anything, P.anything)(e_):
                    sw = (bi, b['term'], labels)
        if sw is None:
            ctx.unknown('R5', 'known-header-skipped', inh, 'test for an already tracked header not found in insert_next_block_headers')
        else:
            bi, t, labels = sw
            h = g_.in_loop(bi)
            true_tgt = [x for v, x in t['targets'] if labels.get(v) is True] or [t['otherwise']]
            ok = h is not None and g_.reaches(true_tgt[0], h) and not any(inh.blocks[x]['term']['k'] == 'return' for x in g_.reachable_from(true_tgt[0], avoid=(h,)))
            ctx.check(ok, 'R5', 'known-header-skipped', inh.where(bi), 'an already tracked announced header is skipped and the rest of the batch is still processed',
                      'an already tracked announced header ends the batch: new headers announced behind it are never recorded, so the sync gate stays open while the canister falls behind')
    GUB = 'ic_btc_canister::unstable_blocks::GenericUnstableBlocks::'
    NB = 'ic_btc_canister::unstable_blocks::next_block_headers::NextBlockHeaders::'
    f = ctx.fn('R5', GUB + 'insert_next_block_header')
    if f:
        e = ex(prog, f)
        PREV = P.call('<ic_btc_types::BlockHash as core::convert::From>::from', P.field('prev_blockhash', P.param('block_header')))
        known = P.field('0', P.downcast('Some', P.call(NB + 'get_height', P.field('next_block_headers', P.param('self')), PREV)))
        from_tree = P.binop('Add', P.param('stable_height'), P.has(P.downcast('Ok', P.call(GUB + 'block_depth', P.param('self'), PREV))))
        ls = find_locals(prog, f, lambda x, l: known(x), lambda x, l: from_tree(x))
        ins = [c for c in f.calls_to(NB + 'insert') if not c.cleanup]
        good = len(ls) == 1 and len(ins) == 1 and P.binop('Add', is_var(ls[0]), P.const(1))(e.operand(ins[0].args[2])) and P.param('block_header')(e.operand(ins[0].args[1]))
        ctx.check(good, 'R5', 'announced-height', ins[0] if ins else f, 'announced height = (announced height of the parent | stable_height + depth of the parent block) + 1',
                  'announced header height is %s' % (show(e.operand(ins[0].args[2])) if ins else None))
        rows = table(prog, f)
        err = [r for r in rows if P.agg(variant='Err')(r[1])]
        good = len(err) == 1 and P.exactly(err[0][2], [P.is_(P.call(NB + 'get_height', P.anything, PREV), 'None'), P.is_(P.call(GUB + 'block_depth', P.param('self'), PREV), 'Err')])
        ctx.check(good, 'R5', 'announced-needs-parent', f, 'a header is refused exactly when its parent is neither announced nor in the tree', 'refusal rows: %s' % describe_table(err))
    f = ctx.fn('R5', GUB + 'block_depth')
    if f:
        # the parent of an announced header may sit on any branch of the tree (C14's quantifier: announced
        # headers on forks): its depth comes from a search of the whole tree
        FIND = P.call('ic_btc_canister::blocktree::BlockTree::find_mut', P.field('tree', P.param('self')), P.param('block_hash'))
        rows = table(prog, f)
        oks = [r for r in rows if P.agg(variant='Ok')(r[1])]
        errs = [r for r in rows if not P.agg(variant='Ok')(r[1])]
        good = len(oks) == 1 and P.has(FIND)(oks[0][1]) and isinstance(dict(oks[0][1][4]).get('0'), tuple) and dict(oks[0][1][4])['0'][0] == 'field' and dict(oks[0][1][4])['0'][2] in ('1', 1) \
            and all(P.has(FIND)(c[1] if c[0] == 'is' else c) for r in rows for c in r[2]) and len(errs) == 1
        names = {(c.gshort or c.short or '?').rsplit('::', 1)[-1] for c in f.calls() if not c.cleanup}
        ctx.check(good, 'R5', 'announced-parent-anywhere-in-tree', f,
                  'block_depth = depth of the block found by searching the whole tree (BlockTree::find_mut), an error exactly when it is nowhere in the tree',
                  'block_depth does not look the parent up in the whole tree: %s (calls: %s)' % (describe_table(rows), sorted(names)))
        from rules import atoms
        atoms.tree_search(ctx, 'R5')
    f = ctx.fn('R5', NB + 'insert')
    if f:
        e = ex(prog, f)
        ent = [c for c in f.calls() if not c.cleanup and c.matches('alloc::collections::btree::map::BTreeMap::entry') and P.has(P.field('height_to_hash'))(e.operand(c.args[0])) and P.param('height')(e.operand(c.args[1]))]
        ins = [c for c in f.calls() if not c.cleanup and c.matches('alloc::collections::btree::map::BTreeMap::insert') and P.has(P.field('hash_to_height_and_header'))(e.operand(c.args[0]))]
        good = len(ent) == 1 and len(ins) == 1 and P.agg(_0=P.param('height'), _1=P.param('block_header'))(e.operand(ins[0].args[2])) and not cond_exprs(prog, f, ins[0].bb)
        ctx.check(good, 'R5', 'insert-both-maps', f, 'insert records the header under its hash (with the height) and the hash under the height', 'NextBlockHeaders::insert does not update both maps')
    f = ctx.fn('R5', NB + 'remove_until_height')
    if f:
        e = ex(prog, f)
        rng = list({e.rvalue(st['rv']) for b in f.blocks for st in b['stmts'] if 'rv' in st and P.agg('Range')(e.rvalue(st['rv']))})
        good = len(rng) == 1 and P.binop('Add', P.param('until_height'), P.const(1))(dict(rng[0][4]).get('end'))
        rm = sorted(x[2] for c in f.calls() if not c.cleanup and c.matches('alloc::collections::btree::map::BTreeMap::remove') for x in walk(e.operand(c.args[0])) if x[0] == 'field' and x[2] in ('height_to_hash', 'hash_to_height_and_header'))
        ctx.check(good and rm == ['hash_to_height_and_header', 'height_to_hash'], 'R5', 'prune-inclusive', f, 'pruning covers smallest..=until_height and removes from both maps',
                  'prune range: %s, maps removed from: %s' % ([show(x) for x in rng], rm))
    f = ctx.fn('R5', NB + 'remove')
    if f:
        e = ex(prog, f)
        rm = sorted(x[2] for c in f.calls() if not c.cleanup and c.matches('alloc::collections::btree::map::BTreeMap::remove', 'alloc::vec::Vec::remove', 'alloc::collections::btree::map::BTreeMap::get_mut') for x in walk(e.operand(c.args[0])) if x[0] == 'field' and x[2] in ('height_to_hash', 'hash_to_height_and_header'))
        ctx.check('hash_to_height_and_header' in rm and 'height_to_hash' in rm, 'R5', 'remove-both-maps', f, 'remove drops the header and its entry in the height index', 'remove touches %s' % rm)
    f = ctx.fn('R5', NB + 'get_max_height')
    if f:
        r = ex(prog, f).local(0)
        good = P.call('core::option::Option::map', P.call('*::last', P.call('alloc::collections::btree::map::BTreeMap::iter', P.field('height_to_hash', P.param('self')))), P.anything)(r)
        ctx.check(good, 'R5', 'max-height', f, 'max height = last key of the height index', 'get_max_height = %s' % show(r))
    f = ctx.fn('R5', GUB + 'next_block_headers_max_height')
    if f:
        r = ex(prog, f).local(0)
        ctx.check(P.call(NB + 'get_max_height', P.field('next_block_headers', P.param('self')))(r), 'R5', 'max-height-accessor', f, 'the sync gate reads NextBlockHeaders::get_max_height', 'accessor = %s' % show(r))


def r6(ctx, vfns):
    """gate inputs survive upgrades: fields read in REACH(verifiers) that the serialiser omits must be
    stable-memory backed or rebuilt (evidence table of C09)"""
    import json, os
    from rules import c09
    from sa.dataflow import readers
    prog = ctx.prog
    reach = prog.reach(list(vfns.values()))
    cov = c09.coverage(prog)
    spec = json.load(open(c09.SPEC))['fields'] if os.path.exists(c09.SPEC) else []
    evid = {(x['adt'], x['field']): x for x in spec}
    n = 0
    for adt, info in sorted(cov.items()):
        for f in info['fields']:
            if not readers(prog, adt, f, list(reach.values())):
                continue
            n += 1
            if f in info['omitted'] and (adt, f) not in evid:
                ctx.bad('R6', 'gate-input-lost-at-upgrade:%s.%s' % (adt.rsplit('::', 1)[-1], f), prog.adts[adt]['file'] + ':%d' % prog.adts[adt]['line'],
                        'field `%s` of %s is read by the access gates but is not carried across an upgrade: after post_upgrade the gates decide on a default value '
                        '(e.g. forgotten announced headers make an unsynced canister answer)' % (f, adt))
    ctx.floor('R6', 'state fields read by the gates', n, 6)
    if not any(o.rule == 'R6' and o.status != 'discharged' and not o.key.startswith('floor') for o in getattr(ctx, 'obs', [])):
        ctx.ok('R6', 'gate-inputs-survive-upgrades', '', 'all %d state fields read by the three gates are serialised (or backed by stable memory)' % n)


# plumbing between the interface and the analysed functions (rules/plumbing.py)
_run_before_plumbing = run


def run(ctx):
    _run_before_plumbing(ctx)
    from rules import plumbing
    plumbing.config_from_init(ctx, 'R7')
    plumbing.init_applies_config(ctx, 'R7', fields=('api_access', 'disable_api_if_not_fully_synced'))
    plumbing.set_config_same_name(ctx, 'R7')
