"""C13 — Block fetching survives any reply sequence and interleaving (DESIGN §5 C13)."""
from sa import pat as P
from sa.cfg import cfg
from sa.util import fmt_conds
from sa.expr import ex, cond_exprs, conditions, show, walk, is_field, const_val, canon, strip_casts
from sa.util import (gate, panic_blocks, the_closure, glob_any, require_callers, require_writers, field_assignments,
                     unwrap_some, agg_variant, agg_field, cond_variants, mentions_field, local_assignments, return_blocks)
from sa.dataflow import aggregates, writers

EXPLANATION = (
    "Decides structurally: R1 the single-flight guard — one call site of call_get_successors, inside an async body, "
    "gated by FetchBlocksGuard::new() returning Some, with the guard value live across the await (member of the "
    "coroutine's saved-locals layout), guard values built only in FetchBlocksGuard::new, whose flag is set only on the "
    "not-fetching arm and cleared by Drop; R2 who may write the fetch flag / stored response and who may reset them; "
    "R3 the request-selection table (Complete -> no request, Partial(_, k) -> FollowUp(k), none -> Initial{network, "
    "anchor = first hash, processed = rest}); R4 the reply table (reject -> counter + stored response cleared; Complete "
    "stored as is; Partial stored with page index 0; FollowUp appends to the partial block, increments the index by 1 and "
    "completes on index == remaining); R5 no RefCell borrow is held across the await; R6 heartbeat phase order and "
    "put-back of a non-complete response; R7 page reassembly completes for every page count 0..255 (the equality test "
    "on the monotone page counter is guarded for remaining_follow_ups == 0). "
    "Does NOT decide: liveness, all interleavings of >= 2 heartbeats beyond the single-flight structure, bit-identity "
    "of reassembly beyond append order.")
RULES = {
    'R1': 'single-flight guard: CALLERS, GATE, SAVED across Yield, constructor confinement, flag arms; exact conditions of the call site (liveness)',
    'R2': 'WRITERS of SyncingState.{is_fetching_blocks,response_to_process}; CALLERS(reset_syncing_state)',
    'R3': 'TABLE(maybe_get_successors_request); the block-hash enumeration visits the whole tree',
    'R4': 'reply handling table of the closure that stores the response',
    'R5': 'no RefCell Ref/RefMut in the coroutine layout of the fetching future',
    'R6': 'heartbeat phase order; non-complete response is put back unchanged',
    'R7': 'completion of the page counter for every remaining_follow_ups in 0..255',
    'R8': 'a block delivered again is refused: duplicate check over all successors of its parent (= C10.R1)',
}
ASSUMPTIONS = ['ic-cdk drops the locals of a cancelled/trapped call future (guard Drop runs)']

SS = 'ic_btc_canister::state::SyncingState'


def run(ctx):
    _run(ctx)
    # R8: "no block is applied twice": a block delivered again is refused whichever sibling arrived in
    # between (shared with C10.R1 `duplicate-check-all-successors`)
    from sa.engine import SubCtx
    from rules import c10
    c10.dup_check(SubCtx(ctx, {'R1': 'R8'}))
    from rules import atoms
    atoms.all_blocks_enumerated(ctx, 'R3')


def _run(ctx):
    prog = ctx.prog
    # ---------------- R1 -----------------------------------------------------------------------
    cs = prog.callers('ic_btc_canister::runtime::call_get_successors')
    ctx.saw_calls(len(cs))
    if len(cs) != 1:
        ctx.bad('R1', 'single-call-site', cs[0] if cs else '', 'call_get_successors has %d call sites (expected exactly 1)' % len(cs)) \
            if cs else ctx.unknown('R1', 'single-call-site', '', 'no call site of runtime::call_get_successors found')
        return
    call = cs[0]
    F = call.fn
    ctx.touch(F)
    ctx.check(F.is_coroutine, 'R1', 'single-call-site', call, 'exactly one call site of call_get_successors, in async body %s' % F.short,
              'call_get_successors is called from a non-async body %s' % F.short)
    news = [c for c in F.calls_to('ic_btc_canister::guard::FetchBlocksGuard::new') if not c.cleanup]
    if not news:
        ctx.bad('R1', 'guard-gates-call', call, 'no FetchBlocksGuard::new() in %s before call_get_successors' % F.short)
    else:
        ok, why = gate(prog, F, news[0].bb, call.bb, success={'Some'})
        ctx.check(ok, 'R1', 'guard-gates-call', call, 'FetchBlocksGuard::new() == Some gates the call (%s)' % why,
                  'call_get_successors is not gated by FetchBlocksGuard::new() returning Some: %s' % why)
    # liveness side: a request goes out whenever syncing is enabled, no request is outstanding and there is a
    # request to send — the call site's conditions are exactly these three (no further guard, also not a
    # compound one off the dominator chain, that could stop fetching for good)
    conds = cond_exprs(prog, F, call.bb)
    syncing_on = False
    for c_ in conds:
        if c_[0] == 'un' and c_[1] == 'Not' and c_[2][0] == 'call' and c_[2][1] == 'ic_btc_canister::with_state' and c_[2][2] and c_[2][2][0][0] == 'closure':
            k_ = prog.fns.get(c_[2][2][0][1])
            if k_ is not None:
                r_ = ex(prog, k_).local(0)
                syncing_on = P.binop('Eq', P.has(P.agg(variant='Disabled')), P.field('syncing', P.anything))(r_) or P.binop('Eq', P.field('syncing', P.anything), P.has(P.agg(variant='Disabled')))(r_)
    want = [lambda c_: c_[0] == 'un' and c_[1] == 'Not' and c_[2][0] == 'call' and c_[2][1] == 'ic_btc_canister::with_state',
            P.is_(P.call('ic_btc_canister::guard::FetchBlocksGuard::new'), 'Some'),
            P.is_(P.call('ic_btc_canister::heartbeat::maybe_get_successors_request'), 'Some')]
    ctx.check(syncing_on and P.exactly(conds, want), 'R1', 'call-exact-conditions', call,
              'get_successors is called exactly when syncing is not disabled, the guard was acquired and there is a request to send',
              'the get_successors call has other conditions: %s' % fmt_conds(conds)[:300])
    saved = prog.coroutines.get(F.id)
    if saved is None:
        ctx.unknown('R1', 'guard-saved-across-await', F, 'no coroutine layout for %s' % F.short)
    else:
        held = [s for s in saved if 'ic_btc_canister::guard::FetchBlocksGuard' in s['adts']]
        ctx.check(bool(held), 'R1', 'guard-saved-across-await', F,
                  'FetchBlocksGuard is live across the await (coroutine saved local %r)' % (held[0]['name'] if held else None),
                  'FetchBlocksGuard is not among the locals saved across the await of %s (saved: %s): the flag is released before the reply arrives'
                  % (F.short, [s['ty']['s'][:60] for s in saved]))
    # the await of the call's future lies between guard creation and every normal exit: yield exists after the call
    g = cfg(F)
    yields = [i for i, b in enumerate(F.blocks) if b['term']['k'] == 'yield']
    ctx.check(any(g.reaches(call.bb, y) for y in yields), 'R1', 'await-after-call', call,
              'the future returned by call_get_successors is awaited in the same body',
              'no await (Yield) reachable after call_get_successors')
    aggs = aggregates(prog, 'ic_btc_canister::guard::FetchBlocksGuard')
    roots = sorted({prog.root_of(f).short for f, _, _ in aggs})
    ctx.check(roots == ['ic_btc_canister::guard::FetchBlocksGuard::new'], 'R1', 'guard-constructor', '',
              'FetchBlocksGuard values are built only in FetchBlocksGuard::new',
              'FetchBlocksGuard is constructed in %s' % roots)
    # flag arms in new(): write true only where flag read false; None returned where true
    newf = ctx.fn('R1', 'ic_btc_canister::guard::FetchBlocksGuard::new')
    if newf:
        cl = the_closure(prog, newf, ctx, 'R1')
        if cl:
            ctx.touch(cl)
            fa = field_assignments(prog, cl, SS, 'is_fetching_blocks')
            good = len(fa) == 1 and const_val(fa[0][2]) in (1, 'true', True)
            if good:
                cond = cond_exprs(prog, cl, fa[0][0])
                good = len(cond) == 1 and cond[0] == canon(('un', 'Not', ('field', ('field', ('param', 2, 's'), 'syncing_state', 'ic_btc_canister::state::GenericState'), 'is_fetching_blocks', SS)))
            # Some(guard) only on that arm
            somes = [(bb, e) for bb, e in local_assignments(prog, cl, 0) if agg_variant(e) == 'Some']
            good = good and len(somes) == 1 and cfg(cl).dominates(fa[0][0], somes[0][0])
            ctx.check(good, 'R1', 'guard-new-arms', cl,
                      'new(): flag set to true and Some(guard) returned only when the flag was false',
                      'FetchBlocksGuard::new does not have the shape `if flag {None} else {flag = true; Some}`: writes=%s' % [(show(e)) for _, _, e in fa])
    drops = [im for im in prog.impls if im['trait'] == 'core::ops::drop::Drop' and im['self'].get('adt') == 'ic_btc_canister::guard::FetchBlocksGuard']
    if not drops:
        ctx.bad('R1', 'guard-drop', '', 'FetchBlocksGuard has no Drop impl: the flag is never released')
    else:
        df = prog.fns.get(drops[0]['fns'].get('drop'))
        cl = the_closure(prog, df, ctx, 'R1') if df else None
        if cl:
            fa = field_assignments(prog, cl, SS, 'is_fetching_blocks')
            g2 = cfg(cl)
            good = len(fa) >= 1 and all(const_val(e) in (0, 'false', False) for _, _, e in fa) and g2.all_paths_pass(0, [b for b, _, _ in fa])
            ctx.check(good, 'R1', 'guard-drop', cl, 'Drop clears is_fetching_blocks on every path', 'Drop for FetchBlocksGuard does not clear the flag on every path')
    # ---------------- R2 -----------------------------------------------------------------------
    require_writers(ctx, 'R2', 'writers:is_fetching_blocks', SS, 'is_fetching_blocks',
                    {'ic_btc_canister::guard::FetchBlocksGuard::new', '<ic_btc_canister::guard::FetchBlocksGuard as core::ops::drop::Drop>::drop',
                     'ic_btc_canister::reset_syncing_state'}, floor=3)
    require_writers(ctx, 'R2', 'writers:response_to_process', SS, 'response_to_process',
                    {prog.root_of(F).short, 'ic_btc_canister::heartbeat::maybe_process_response', 'ic_btc_canister::reset_syncing_state'}, floor=3)
    require_callers(ctx, 'R2', 'callers:reset_syncing_state', ['ic_btc_canister::reset_syncing_state'],
                    {'ic_btc_canister::pre_upgrade', 'ic_btc_canister::post_upgrade'}, floor=2)
    # ---------------- R5 -----------------------------------------------------------------------
    if saved is not None:
        bad = [s for s in saved if any(a.startswith('core::cell::Ref') or a.startswith('core::cell::BorrowRef') for a in s['adts'])]
        ctx.check(not bad, 'R5', 'no-borrow-across-await', F, 'no RefCell borrow guard among the %d locals saved across the await' % len(saved),
                  'a RefCell borrow is held across the await: %s' % [s['ty']['s'] for s in bad])
    r3(ctx)
    r4_r7(ctx, F)
    r6(ctx)


def r3(ctx):
    prog = ctx.prog
    f = ctx.fn('R3', 'ic_btc_canister::heartbeat::maybe_get_successors_request')
    if not f:
        return
    cl = the_closure(prog, f, ctx, 'R3')
    if not cl:
        return
    ctx.touch(cl)
    rows = {}
    for bb, e in local_assignments(prog, cl, 0):
        vs = cond_variants(prog, cl, bb)
        rows[bb] = (vs, e)
    rtp = lambda x: mentions_field(x, 'response_to_process', SS)
    seen = set()
    for bb, (vs, e) in rows.items():
        if 'Complete' in vs:
            seen.add('Complete')
            ctx.check(agg_variant(e) == 'None', 'R3', 'row:Complete', cl.where(bb), 'stored Complete response -> no request', 'stored Complete response yields %s' % show(e))
        elif 'Partial' in vs:
            seen.add('Partial')
            inner = unwrap_some(e)
            k = agg_field(inner, '0') if agg_variant(inner) == 'FollowUp' else None
            good = (k is not None and k[0] == 'field' and k[2] == '1' and k[1][0] == 'downcast' and k[1][2] == 'Partial' and rtp(k))
            ctx.check(good, 'R3', 'row:Partial', cl.where(bb), 'stored Partial(_, k) -> FollowUp(k) with the stored page index',
                      'stored Partial response yields %s (expected FollowUp(stored index))' % show(e))
        elif 'None' in vs:
            seen.add('None')
            inner = unwrap_some(e)
            ini = agg_field(inner, '0') if agg_variant(inner) == 'Initial' else None
            good = False
            why = show(e)
            if ini is not None and ini[0] == 'agg':
                net, anchor, proc = agg_field(ini, 'network'), agg_field(ini, 'anchor'), agg_field(ini, 'processed_block_hashes')
                hashes = ('call', 'ic_btc_canister::state::get_block_hashes', (('param', 2, 'state'),))
                good = (net == ('call', 'ic_btc_canister::state::GenericState::network', (('param', 2, 'state'),))
                        and anchor == ('call', 'alloc::vec::Vec::remove', (hashes, ('const', 0)))
                        and proc == hashes)
            ctx.check(good, 'R3', 'row:None', cl.where(bb),
                      'no stored response -> Initial{network, anchor = hashes.remove(0), processed = remaining hashes}', 'initial request is %s' % why)
    for want in ('Complete', 'Partial', 'None'):
        if want not in seen:
            ctx.unknown('R3', 'row:' + want, cl, 'no return arm found for stored response = %s' % want)
    # root first: collect_hashes pushes the root before the children
    bh = prog.find('ic_btc_canister::blocktree::BlockTree::get_hashes', 'ic_btc_canister::blocktree::BlockTree::get_hashes::*', 'ic_btc_canister::blocktree::*collect_hashes*')
    for h in bh:
        ctx.touch(h)
    hs = [h for h in bh if any(c.matches('alloc::vec::Vec::push') for c in h.calls())]
    if not hs:
        ctx.unknown('R3', 'root-first', '', 'hash collection function of the block tree not found')
    else:
        h = hs[0]
        g = cfg(h)
        push = [c for c in h.calls() if c.matches('alloc::vec::Vec::push') and not c.cleanup]
        rec = [c for c in h.calls() if c.callee == h.id and not c.cleanup]
        loops = [c for c in h.calls() if c.matches('*::next') and not c.cleanup]
        good = bool(push) and (not rec or all(g.dominates(push[0].bb, r.bb) for r in rec)) and (not loops or all(g.dominates(push[0].bb, l.bb) for l in loops))
        ctx.check(good, 'R3', 'root-first', h, 'block hashes are collected root (anchor) first, before any child', 'hash collection does not push the root before its children')


def P_downcast_partial(x):
    return any(y[0] == 'downcast' and y[2] == 'Partial' for y in walk(x))


def r4_r7(ctx, F):
    prog = ctx.prog
    # the reply closure: child closure of F that writes response_to_process
    cands = [c for c in prog.children(F) if any(w.fn.id == c.id for w in writers(prog, SS, 'response_to_process', [c]))]
    if len(cands) != 1:
        ctx.unknown('R4', 'reply-closure', F, 'expected one closure of %s writing response_to_process, found %d' % (F.short, len(cands)))
        return
    cl = cands[0]
    ctx.touch(cl)
    g = cfg(cl)
    fa = field_assignments(prog, cl, SS, 'response_to_process')
    by = {}
    for bb, line, e in fa:
        vs = cond_variants(prog, cl, bb)
        arm = 'Err' if 'Err' in vs else 'Complete' if 'Complete' in vs and 'Ok' in vs else 'Partial' if 'Partial' in vs and 'Ok' in vs and 'FollowUp' not in vs else 'FollowUp' if 'FollowUp' in vs else '?'
        by.setdefault(arm, []).append((bb, line, e, vs))
    # --- reject arm
    if 'Err' not in by:
        ctx.bad('R4', 'reject-clears-response', cl, 'on a rejected call the stored (partial) response is not cleared: no assignment of response_to_process on the Err arm')
    else:
        bbs = [bb for bb, _, e, _ in by['Err'] if agg_variant(e) == 'None']
        # entry of the Err arm: first switch on the upvar response
        sw = [c for c in conditions(prog, cl, bbs[0])] if bbs else []
        good = bool(bbs)
        if good:
            # all paths from the Err successor of the first switch to a return pass the clearing assignment
            first = sw[0]['bb']
            t = cl.blocks[first]['term']
            err_succ = [b for v, b in t['targets'] if v == 1]
            good = bool(err_succ) and g.all_paths_pass(err_succ[0], bbs, exits=return_blocks(cl))
        ctx.check(good, 'R4', 'reject-clears-response', cl.where(bbs[0]) if bbs else cl,
                  'reject arm: response_to_process = None on every path', 'reject arm does not clear response_to_process on every path')
        inc = [x for x in field_assignments(prog, cl, SS, 'num_get_successors_rejects')]
        good = any('Err' in cond_variants(prog, cl, bb) and e[0] == 'bin' and e[1] == 'Add' and ('const', 1) in (e[2], e[3]) for bb, _, e in inc)
        ctx.check(good, 'R4', 'reject-counts', cl, 'reject arm: num_get_successors_rejects += 1', 'reject arm does not increment num_get_successors_rejects by 1')
    # --- complete arm
    if 'Complete' in by:
        bb, line, e, _ = by['Complete'][0]
        inner = unwrap_some(e)
        pay = agg_field(inner, '0') if agg_variant(inner) == 'Complete' else None
        good = pay is not None and pay[0] == 'field' and pay[1][0] == 'downcast' and pay[1][2] == 'Complete' and any(x[0] == 'upvar' for x in walk(pay))
        ctx.check(good, 'R4', 'complete-stored', cl.where(bb), 'Complete reply stored unchanged as Some(Complete(response))', 'Complete reply stored as %s' % show(e))
    else:
        ctx.unknown('R4', 'complete-stored', cl, 'no store on the Complete arm')
    # --- partial arm (R4 + R7)
    zero_guard = False
    if 'Partial' in by:
        rows = by['Partial']
        part_rows = []
        for bb, line, e, vs in rows:
            inner = unwrap_some(e)
            part_rows.append((bb, inner))
        idx_ok = True
        seen_partial = False
        for bb, inner in part_rows:
            if agg_variant(inner) == 'Partial':
                seen_partial = True
                k = agg_field(inner, '1')
                if const_val(k) != 0:
                    idx_ok = False
            elif inner is not None and inner[0] == 'var':
                # value of an if/else: inspect the definitions
                for d in ex(prog, cl).def_exprs(inner[2]):
                    if agg_variant(d) == 'Partial':
                        seen_partial = True
                        if const_val(agg_field(d, '1')) != 0:
                            idx_ok = False
        ctx.check(seen_partial and idx_ok, 'R4', 'partial-index-zero', cl.where(rows[0][0]),
                  'Partial reply stored with page index 0 (follow-ups are numbered from 0)', 'Partial reply is not stored with page index 0')
        # R7: a test of remaining_follow_ups on the Partial arm (n == 0 handled on receipt)
        for bb, line, e, vs in rows:
            for c in cond_exprs(prog, cl, bb):
                if mentions_field(c, 'remaining_follow_ups'):
                    zero_guard = True
        # or in the defs feeding the stored value
        for bi in range(len(cl.blocks)):
            vs = cond_variants(prog, cl, bi)
            if 'Partial' in vs and 'Ok' in vs and 'FollowUp' not in vs and 'Complete' not in vs:
                for c in cond_exprs(prog, cl, bi):
                    if c[0] == 'bin' and mentions_field(c, 'remaining_follow_ups') and any(const_val(x) == 0 for x in (c[2], c[3])):
                        zero_guard = True
    else:
        ctx.unknown('R4', 'partial-index-zero', cl, 'no store on the Partial arm')
    # --- follow-up arm
    if 'FollowUp' in by:
        bb0 = by['FollowUp'][0][0]
        apps = [c for c in cl.calls_to('alloc::vec::Vec::append') if not c.cleanup and 'FollowUp' in cond_variants(prog, cl, c.bb)]
        e_ = ex(prog, cl)
        good = False
        if len(apps) == 1:
            a0, a1 = (e_.operand(a) for a in apps[0].args)
            good = is_field(a0, 'partial_block') and not is_field(a1, 'partial_block') and 'FollowUp' in show(a1)
        ctx.check(good, 'R4', 'followup-append-order', apps[0] if apps else cl.where(bb0),
                  'follow-up bytes are appended to the stored partial block (partial_block.append(&mut bytes))',
                  'follow-up arm does not append the received bytes to the stored partial block')
        # index increment by exactly 1 and completion test
        from sa.util import find_locals, is_var
        idx_locals = find_locals(prog, cl, lambda x, l: x[0] == 'bin' and x[1] == 'Add' and (is_var(l)(x[2]) or is_var(l)(x[3])),
                                 lambda x, l: x[0] == 'field' and x[2] == '1' and P_downcast_partial(x))
        inc_ok, test = False, None
        for l in idx_locals:
            des = ex(prog, cl).def_exprs(l)
            incs = [d for d in des if d[0] == 'bin' and d[1] == 'Add']
            if incs and all(('const', 1) in (d[2], d[3]) and any(x[0] == 'var' and x[2] == l for x in (d[2], d[3])) for d in incs) and len(incs) == 1:
                inc_ok = True
        # every follow-up page counts, whatever it contains: append and increment happen under the arm's own
        # conditions only (an empty page is still page k)
        arm_conds = {repr(c) for c in cond_exprs(prog, cl, bb0)}
        sites = [apps[0].bb] if len(apps) == 1 else []
        from sa.expr import defs as _defs
        for l in idx_locals:
            for d_ in _defs(cl).whole[l]:
                de = ex(prog, cl).def_expr(d_)
                if de[0] == 'bin' and de[1] == 'Add':
                    sites.append(d_[0])
        extra = [c for b_ in sites for c in cond_exprs(prog, cl, b_, hidden=False) if repr(c) not in arm_conds
                 and not (c[0] == 'bin' and c[1].endswith('Overflow')) and not (c[0] == 'un' and P.has(lambda x: isinstance(x, tuple) and x[0] == 'overflow')(c))]
        ctx.check(len(sites) >= 2 and not extra, 'R4', 'followup-every-page-counts', cl.where(bb0),
                  'on the FollowUp arm the bytes are appended and the page index advanced unconditionally',
                  'appending / counting a follow-up page depends on %s: a page for which it is false is requested again forever' % [show(c)[:80] for c in extra][:2])
        ctx.check(inc_ok, 'R4', 'followup-index-plus-one', cl.where(bb0), 'page index incremented by exactly 1 per follow-up', 'page index is not incremented by exactly 1 per follow-up')
        # completion test: the switch that decides Complete vs Partial on the FollowUp arm
        comp = None
        for bi, b in enumerate(cl.blocks):
            for st in b['stmts']:
                rv = st.get('rv') or {}
                if rv.get('agg') == 'adt' and rv.get('variant') == 'Complete' and rv['adt'].endswith('ResponseToProcess') and 'FollowUp' in cond_variants(prog, cl, bi):
                    for c in cond_exprs(prog, cl, bi):
                        if c[0] == 'bin' and mentions_field(c, 'remaining_follow_ups'):
                            comp = (bi, c)
        if comp is None:
            ctx.unknown('R4', 'followup-completion-test', cl.where(bb0), 'completion test of the follow-up arm not recognised')
        else:
            bi, c = comp
            ctx.check(c[1] in ('Eq', 'Le', 'Lt') and any(x[0] == 'var' and x[2] in idx_locals for x in walk(c)), 'R4', 'followup-completion-test', cl.where(bi),
                      'response completes when the page index reaches remaining_follow_ups (%s)' % show(c), 'completion test is %s' % show(c))
            # R7
            monotone_ok = (c[1] in ('Le', 'Lt') and c[2][0] == 'field')  # remaining <= index
            ctx.check(monotone_ok or zero_guard, 'R7', 'completes-for-zero-followups', cl.where(bi),
                      'completion is reachable for every page count: %s' % ('inequality test' if monotone_ok else 'remaining_follow_ups == 0 handled when the partial reply is received'),
                      'completion test `%s` is an equality on a counter that starts at 0 and is tested only after an increment, and the Partial arm never '
                      'tests remaining_follow_ups: a partial reply with remaining_follow_ups = 0 never completes (the canister requests FollowUp(0), stores '
                      'Partial(_, 1) and the assertion remaining >= index fails on every later heartbeat)' % show(c))
    else:
        ctx.unknown('R4', 'followup-append-order', cl, 'no store on the FollowUp arm')


def r6(ctx):
    prog = ctx.prog
    hb = ctx.fn('R6', 'ic_btc_canister::heartbeat::heartbeat::{closure#0}')
    if not hb:
        return
    g = cfg(hb)
    ing = [c for c in hb.calls_to('ic_btc_canister::heartbeat::ingest_stable_blocks_into_utxoset') if not c.cleanup]
    fetch = [c for c in hb.calls_to('ic_btc_canister::heartbeat::maybe_fetch_blocks') if not c.cleanup]
    proc = [c for c in hb.calls_to('ic_btc_canister::heartbeat::maybe_process_response') if not c.cleanup]
    fee = [c for c in hb.calls_to('ic_btc_canister::heartbeat::maybe_compute_fee_percentiles') if not c.cleanup]
    if not (ing and fetch and proc):
        ctx.unknown('R6', 'phase-order', hb, 'heartbeat phases not found (ingest=%d fetch=%d process=%d)' % (len(ing), len(fetch), len(proc)))
        return
    good = g.dominates(ing[0].bb, fetch[0].bb) and g.dominates(fetch[0].bb, proc[0].bb) and (not fee or g.dominates(proc[0].bb, fee[0].bb))
    ctx.check(good, 'R6', 'phase-order', hb, 'heartbeat: ingest, then fetch, then process, then fee percentiles', 'heartbeat phases are not ordered ingest -> fetch -> process -> fees')
    # processing only when no fetch was started this round: bool result of maybe_fetch_blocks gates process
    conds = [c for c in cond_exprs(prog, hb, proc[0].bb)]
    mp = ctx.fn('R6', 'ic_btc_canister::heartbeat::maybe_process_response')
    if mp:
        cl = the_closure(prog, mp, ctx, 'R6')
        if cl:
            ctx.touch(cl)
            fa = field_assignments(prog, cl, SS, 'response_to_process')
            takes = [c for c in cl.calls_to('core::option::Option::take') if not c.cleanup]
            good = False
            if takes and fa:
                tk = ex(prog, cl).call_expr(cl.blocks[takes[0].bb]['term'])
                # put back: assigned value is the taken value itself, on the non-Complete arm
                good = any(e == tk and 'Complete' not in cond_variants(prog, cl, bb) for bb, _, e in fa)
            ctx.check(good, 'R6', 'put-back', cl, 'a response that is not Complete is put back unchanged', 'maybe_process_response does not put a non-complete response back unchanged')


# plumbing between the interface and the analysed functions (rules/plumbing.py)
_run_before_plumbing = run


def run(ctx):
    _run_before_plumbing(ctx)
    from rules import plumbing
    plumbing.init_applies_config(ctx, 'R1', fields=('syncing', 'blocks_source'))
