"""C19 — send_transaction forwards exactly the well-formed transactions (DESIGN §5 C19)."""
from sa.cfg import cfg
from sa.expr import ex, show, walk, is_field, is_call
from sa.util import gate, glob_any, require_callers, require_writers, mentions_field, the_closure, field_assignments
from sa.dataflow import writers, accesses

EXPLANATION = (
    "Decides structurally, in the async body that calls runtime::call_send_transaction_internal: R1 the order "
    "verify_api_access < verify_network < charge < decode (dominance), and that the success edge of the decode gates both "
    "the send_transaction_count increment and the forwarding call (the only writer of that counter / only caller of the "
    "forwarding shim); R2 exact decode: the request bytes are decoded with a decoder that rejects trailing bytes "
    "(bitcoin::consensus::deserialize) or the remaining input is tested for emptiness before acceptance; R3 the forwarded "
    "request carries request.transaction unmodified (moved, never mutably borrowed), the request's network and the "
    "configured blocks_source as destination. "
    "Does NOT decide: which byte strings the bitcoin crate's decoder accepts (trusted).")
RULES = {
    'R1': 'DOM chain of guards/charge/decode; GATE(decode => counter, forward); WRITERS(counter); CALLERS(forward); Err only on decode failure; verify_synced not reachable',
    'R2': 'every consensus decode of request bytes is length-exact (deserialize) or followed by an emptiness test gating acceptance',
    'R3': 'forwarded payload = request.transaction (no mutable borrow), network = request.network, destination = state.blocks_source',
}
ASSUMPTIONS = ['bitcoin::consensus::deserialize rejects unconsumed trailing bytes (documented behaviour of the bitcoin crate)']

EXACT = ('bitcoin::consensus::encode::deserialize', 'bitcoin::consensus::deserialize', 'bitcoin::consensus::encode::deserialize_hex')
PARTIAL = ('*::consensus_decode', '*::consensus_decode_from_finite_reader', 'bitcoin::consensus::encode::deserialize_partial')


def run(ctx):
    prog = ctx.prog
    fw = require_callers(ctx, 'R1', 'callers:forward', ['ic_btc_canister::runtime::call_send_transaction_internal'],
                         {'ic_btc_canister::api::send_transaction::send_transaction'}, floor=1)
    if len(fw) != 1:
        if len(fw) > 1:
            ctx.bad('R1', 'single-forward-site', fw[1], 'call_send_transaction_internal has %d call sites' % len(fw))
        return
    fwd = fw[0]
    F = fwd.fn
    ctx.touch(F)
    g = cfg(F)
    e = ex(prog, F)

    def one(pat, key):
        cs = [c for c in F.calls_to(pat) if not c.cleanup]
        if not cs:
            ctx.bad('R1', key, F, 'no call to %s in %s' % (pat, F.short))
            return None
        return cs[0]

    va = one('ic_btc_canister::verify_api_access', 'has:verify_api_access')
    vn = one('ic_btc_canister::verify_network', 'has:verify_network')
    ch = one('ic_btc_canister::charge_cycles', 'has:charge')
    decs = [c for c in F.calls() if not c.cleanup and (c.matches(*EXACT) or c.matches(*PARTIAL))]
    ctx.saw_calls(len(F.calls()))
    if not decs:
        ctx.bad('R2', 'decode-present', F, 'the payload is never decoded before it is forwarded')
        return
    dec = decs[0]
    if va and vn and ch:
        good = g.dominates(va.bb, vn.bb) and g.dominates(vn.bb, ch.bb) and g.dominates(ch.bb, dec.bb)
        ctx.check(good, 'R1', 'order', dec, 'verify_api_access < verify_network < charge_cycles < decode (dominance chain)',
                  'guards/charge/decode are not in the order access < network < charge < decode')
        arg = e.operand(vn.args[0])
        ctx.check(mentions_field(arg, 'network'), 'R1', 'network-arg', vn, 'verify_network receives request.network', 'verify_network receives %s' % show(arg))
    # counter
    roots = require_writers(ctx, 'R1', 'writers:send_transaction_count', 'ic_btc_canister::metrics::Metrics', 'send_transaction_count',
                            {'ic_btc_canister::api::send_transaction::send_transaction'}, floor=1)
    ws = writers(prog, 'ic_btc_canister::metrics::Metrics', 'send_transaction_count')
    cnt_sites = []
    for w in ws:
        # the with_state_mut call in F that runs the writing closure
        for c in F.calls():
            if w.fn.id in c.closure_args() and not c.cleanup:
                cnt_sites.append(c)
    if not cnt_sites:
        ctx.unknown('R1', 'gate:decode=>count', F, 'counter increment site not found in %s' % F.short)
    for c in cnt_sites:
        ok, why = gate(prog, F, dec.bb, c.bb)
        ctx.check(ok, 'R1', 'gate:decode=>count', c, 'the request is counted only after a successful decode (%s)' % why,
                  'send_transaction_count is incremented without a successful decode: %s' % why)
    ok, why = gate(prog, F, dec.bb, fwd.bb)
    ctx.check(ok, 'R1', 'gate:decode=>forward', fwd, 'the payload is forwarded only after a successful decode (%s)' % why,
              'the payload is forwarded without a successful decode: %s' % why)
    for w in ws:
        fa = field_assignments(prog, w.fn, 'ic_btc_canister::metrics::Metrics', 'send_transaction_count')
        good = len(fa) == 1 and fa[0][2][0] == 'bin' and fa[0][2][1] == 'Add' and ('const', 1) in (fa[0][2][2], fa[0][2][3])
        ctx.check(good, 'R1', 'count-plus-one', w, 'send_transaction_count += 1', 'counter update is %s' % [show(x[2]) for x in fa])
    # failing decode maps to MalformedTransaction
    mal = False
    for c in F.calls_to('core::result::Result::map_err'):
        for clid in c.closure_args():
            cf = prog.fns.get(clid)
            if cf is not None:
                r = ex(prog, cf).local(0)
                if r[0] == 'agg' and r[3] == 'MalformedTransaction':
                    mal = True
    if not mal:
        from sa.util import table
        from sa import pat as PP
        for _, val, conds in table(prog, F):
            if PP.agg(variant='Err', _0=PP.agg(variant='MalformedTransaction'))(val) and any(c[0] == 'is' and set(c[2]) & {'Err', 'Break'} for c in conds):
                mal = True
    ctx.check(mal, 'R1', 'error-kind', dec, 'decode failure is reported as MalformedTransaction', 'decode failure is not mapped to MalformedTransaction')
    # "if and only if": the decode failure is the only refusal that is not one of the two guards —
    # every Err return is conditioned on the decoder's failure, and the sync gate is not consulted
    from sa.util import table as _table
    from sa import pat as _P
    rows = _table(prog, F)
    isdec = lambda x: isinstance(x, tuple) and x[0] == 'call' and glob_any(x[1], list(EXACT) + list(PARTIAL))
    errs = [r for r in rows if _P.agg(variant='Err')(r[1]) or (isinstance(r[1], tuple) and r[1][0] == 'call' and r[1][1].endswith('from_residual'))]
    stray = [r for r in errs if not any(isinstance(c, tuple) and c[0] == 'is' and set(c[2]) & {'Err', 'Break'} and any(isdec(x) for x in walk(c[1])) for c in r[2])]
    ctx.check(bool(errs) and not stray, 'R1', 'refusal-only-on-decode-failure', F.where(stray[0][0]) if stray else F,
              'the only error return of send_transaction is the decoder\'s failure',
              'send_transaction refuses a request for a reason other than a failed decode: %s' % [(show(r[1])[:60], [show(c)[:80] if c[0] not in ('is', 'switch') else c[0] for c in r[2]][-2:]) for r in stray][:2])
    # "API access enabled and the request names the canister's network": the two guards mean exactly that
    # (shared with C14.R2: verify_api_access panics iff api_access == Disabled, verify_network iff the
    # networks differ)
    from sa.engine import SubCtx
    from rules import c14
    c14.run(SubCtx(ctx, {'R2': 'R1'}))
    vs = prog.fn('ic_btc_canister::verify_synced', required=False)
    if vs is not None:
        reach = prog.reach([prog.root_of(F)])
        ctx.check(vs.id not in reach, 'R1', 'no-sync-gate', F, 'send_transaction does not depend on the sync status (only access flag and network gate it)',
                  'send_transaction reaches verify_synced: a well-formed transaction is refused while the canister is behind')
    # ---------------- R2 -----------------------------------------------------------------------
    for i, d in enumerate(decs):
        src = e.operand(d.args[0])
        from_req = any(is_field(x, 'transaction') for x in walk(src))
        if not from_req:
            ctx.unknown('R2', 'exact-decode#%d' % i, d, 'decoder input %s does not derive from request.transaction' % show(src))
            continue
        if d.matches(*EXACT):
            ctx.ok('R2', 'exact-decode', d, 'request bytes decoded with %s, which rejects trailing bytes' % d.short)
            continue
        # partial decoder: look for an emptiness test on the remaining input that gates the forward
        gated = False
        for c in F.calls():
            if c.cleanup or not g.dominates(d.bb, c.bb):
                continue
            if c.matches('core::slice::<impl [T]>::is_empty', 'core::slice::<impl [T]>::len', '*::is_empty'):
                a = e.operand(c.args[0])
                if any(is_field(x, 'transaction') for x in walk(a)):
                    for s in range(len(F.blocks)):
                        pass
                    gated = g.dominates(c.bb, fwd.bb)
        ctx.check(gated, 'R2', 'exact-decode', d,
                  'remaining input is tested for emptiness before acceptance',
                  'the payload is decoded with %s, which stops after one transaction and ignores the rest of the reader; nothing tests that the '
                  'remaining input is empty: `tx || garbage` is accepted, counted and forwarded' % d.short)
    # ---------------- R3 -----------------------------------------------------------------------
    req = e.operand(fwd.args[1])
    dest = e.operand(fwd.args[0])
    good = req[0] == 'agg' and req[2].endswith('SendTransactionInternalRequest')
    tx = net = None
    if good:
        tx = dict(req[4]).get('transaction')
        net = dict(req[4]).get('network')
        good = (tx is not None and tx[0] == 'field' and tx[2] == 'transaction' and tx[1][0] in ('upvar', 'param', 'var')
                and net is not None and is_call(net, '<T as core::convert::Into>::into', '*::into', '*::from') and mentions_field(net, 'network'))
    ctx.check(good, 'R3', 'payload-fields', fwd, 'forwarded request = {network: request.network.into(), transaction: request.transaction}',
              'forwarded request is %s' % show(req))
    muts = [a for a in accesses(prog, 'ic_btc_interface::SendTransactionRequest', 'transaction', [F] + prog.descendants(F)) if a.kind == 'write']
    # `as_slice()` takes & not &mut; `&mut request.transaction.as_slice()` borrows the temporary slice mutably, not the Vec
    ctx.check(not muts, 'R3', 'payload-unmodified', muts[0] if muts else fwd, 'request.transaction is never written or mutably borrowed before it is forwarded',
              'request.transaction is written/mutably borrowed before forwarding')
    dest_ok = False
    if dest[0] == 'call' and dest[1] == 'ic_btc_canister::with_state':
        for clid in [c for c in F.calls() if c.bb is not None and c.matches('ic_btc_canister::with_state') and g.dominates(c.bb, fwd.bb)]:
            for cid in clid.closure_args():
                cf = prog.fns.get(cid)
                if cf is not None and is_field(ex(prog, cf).local(0), 'blocks_source'):
                    dest_ok = True
    ctx.check(dest_ok, 'R3', 'destination', fwd, 'destination canister = state.blocks_source', 'destination is %s' % show(dest))
