"""C01 — UTXO answers are exactly the ledger state at the tip they name (DESIGN §5 C01)."""
from sa import pat as P
from sa.cfg import cfg
from sa.expr import ex, show, walk, cond_exprs, const_val
from sa.util import (table, fmt_conds, describe_table, local_by_name, require_callers, require_writers, glob_any, field_assignments,
                     return_blocks, local_assignments)
from sa.dataflow import accesses, writers, readers, aggregates

EXPLANATION = (
    "Decides structurally: R1 exact-key scan — the address index is keyed address||height||outpoint with a variable-"
    "length, undelimited address, so a byte-range scan also covers addresses that extend the queried one: every range "
    "scan of the index must filter the decoded entry's address for equality with the queried address (or the encoder "
    "must delimit the address); R2 height provenance — the height of a UTXO reported from an unstable block must not come "
    "from the outpoint cache's per-outpoint height (one height for all forks) but from the applied block's position "
    "(counter initialised to next_height and advanced once per applied block) or from the stable store; R3 who may "
    "write the stable stores and who may call the ingestion writers; R4 index, balance and delta are updated together "
    "on the address arm, the UTXO map unconditionally; R5 every script-to-address attribution goes through "
    "Address::from_script(_, the UTXO set's network); R6 byte order of the height key (big endian XOR 0xff) agrees with "
    "Ord for Utxo (height descending, then outpoint, then value), the scan bounds are the extremes of that order and both "
    "inclusive; R7 every block up to the tip the answer names is applied to the address view, for every request kind; R8 both merged sources are filtered by the spent set, apply_block records every removed and added "
    "outpoint; R9 when an unstable block is cached, a spent output is looked up in the unstable cache, then among the same "
    "block's earlier outputs, then in the stable set through the reverting accessor, and a miss is an error (the domain is "
    "transaction-valid blocks). Does NOT decide: ledger equality itself (values, spent/unspent status over all histories), same-block "
    "spends, correctness of the merge of the two sorted sources.")
RULES = {
    'R1': 'every range scan of UtxoSet.address_utxos filters decoded.address == queried address',
    'R2': 'provenance of Utxo.height in AddressUtxoSet (not OutPointsCache::get_tx_out(..).1)',
    'R3': 'WRITERS of the stable stores; CALLERS of remove_inputs / insert_utxo; three-tier UTXO store: insert/get/remove agree on the tiers and the size bounds',
    'R4': 'co-location of index / balance / delta writes; unconditional UTXO write',
    'R5': 'attribution sites use Address::from_script with the set\'s network; Address text = to_string() of a parsed bitcoin address; from_script passes the library answer through',
    'R6': 'encoder of Height vs Ord for Utxo; scan bounds; Ord for Utxo as a lexicographic chain; MultiIter merge table; order agreement with the index key (= C06.R7)',
    'R7': 'every admitted block is applied, coupled with the tip label (= C04.R2/R4)',
    'R8': 'spent filter on both sources; apply_block records removed and added outpoints',
    'R10': 'codecs of the stable stores: component order of the writers ((TxOut, Height), (Height, OutPoint), AddressUtxo to_bytes / into_bytes) and the matching split points of the readers',
    'R9': 'lookup order of spent outputs when an unstable block is cached: unstable cache, same block, stable set (reverting accessor)',
}
ASSUMPTIONS = ['ic-stable-structures orders keys lexicographically by their bytes']
US = 'ic_btc_canister::utxo_set::UtxoSet'
AUS = 'ic_btc_canister::address_utxoset::AddressUtxoSet'
UB = 'ic_btc_canister::unstable_blocks::'
T = 'ic_btc_canister::types::'


def closures_in(prog, e):
    out = []
    for x in walk(e):
        if x[0] == 'closure' and x[1] in prog.fns:
            out.append(prog.fns[x[1]])
    return out


def run(ctx):
    r1(ctx)
    r2(ctx)
    r3_r4_r5(ctx)
    r6(ctx)
    r8(ctx)
    r9(ctx)
    # R10: what is read back from stable memory is what was written (writer/reader layout agreement of the
    # value and key codecs; to_bytes and into_bytes of the index key agree)
    from rules import codecs
    codecs.all_codecs(ctx, 'R10')
    # R7: every admitted block of the walked chain is applied, together with the tip label the answer
    # names (shared with C04.R2/R4), for every request kind (no request-dependent shortcut)
    from sa.engine import SubCtx
    from rules import c04
    c04.run(SubCtx(ctx, {'R2': 'R7', 'R4': 'R7'}))


def r1(ctx):
    prog = ctx.prog
    scans = []
    for a in readers(prog, US, 'address_utxos'):
        f = a.fn
        for c in f.calls():
            if not c.cleanup and c.matches('ic_stable_structures::btreemap::BTreeMap::range') and P.has(P.field('address_utxos'))(ex(prog, f).operand(c.args[0])):
                if c not in scans:
                    scans.append(c)
    ctx.floor('R1', 'range scans of the address index', len(scans), 1)
    # does the encoder delimit the address?
    enc = prog.fn('<ic_btc_canister::types::AddressUtxo as ic_stable_structures::storable::Storable>::to_bytes', required=False)
    delimited = False
    if enc:
        ctx.touch(enc)
        delimited = any(c.matches('*::len') and P.has(P.field('address'))(ex(prog, enc).operand(c.args[0])) for c in enc.calls() if not c.cleanup)
    for i, c in enumerate(scans):
        f = c.fn
        e = ex(prog, f)
        ctx.touch(f)
        ctx.saw_calls()
        rng = e.operand(c.args[1])
        queried = rng[2][0] if P.call(T + 'AddressUtxoRange::new', P.anything, P.anything)(rng) else None
        ret = e.local(0)
        # adaptor chain consuming this scan
        chain = [x for x in walk(ret) if x[0] == 'call' and x[1].endswith('Iterator::filter') and P.has(P.call('ic_stable_structures::btreemap::BTreeMap::range'))(x[2][0])]
        okf = False
        for x in chain:
            cl = x[2][1]
            if cl[0] != 'closure' or cl[1] not in prog.fns:
                continue
            k = prog.fns[cl[1]]
            ctx.touch(k)
            r = ex(prog, k).local(0)
            if r[0] == 'bin' and r[1] == 'Eq':
                sides = (r[2], r[3])
                dec = [s for s in sides if P.field('address', P.anything)(s) and not P.has(P.upvar())(s)]
                cap = [s for s in sides if P.has(P.upvar())(s)]
                if dec and cap:
                    # the captured value derives from the queried address
                    ups = cl[2]
                    okf = queried is not None and any(u == queried or P.has(P.param('address'))(u) or P.named('queried_address')(u) for u in ups)
        key = 'scan-filters-address:%s' % f.short.rsplit('::', 1)[-1]
        ctx.check(okf or delimited, 'R1', key, c,
                  'the range scan filters decoded.address == queried address' if okf else 'the key encoding delimits the address',
                  'the address index is scanned by byte range [address||max-height.., address||min-height..] without comparing the decoded address with the queried one, and '
                  'the address is neither fixed-size nor delimited in the key: an output paying an address whose text extends the queried address (e.g. the P2WSH address '
                  'built on a P2WPKH address string) is returned for the shorter address')
        # the decoded entry is AddressUtxo::from_bytes(entry.key())
        okd = any(P.has(P.call('<ic_btc_canister::types::AddressUtxo as ic_stable_structures::storable::Storable>::from_bytes', P.has(P.call('*::key'))))(ex(prog, k).local(0)) or
                  any(cc.matches('<ic_btc_canister::types::AddressUtxo as ic_stable_structures::storable::Storable>::from_bytes') for cc in k.calls())
                  for k in closures_in(prog, ret))
        ctx.check(okd, 'R1', 'scan-decodes-key:%s' % f.short.rsplit('::', 1)[-1], c, 'entries are decoded with AddressUtxo::from_bytes(entry.key())', 'scan does not decode the entry key with AddressUtxo::from_bytes')


def r2(ctx):
    prog = ctx.prog
    fns = [f for f in prog.fns.values() if f.short.startswith(AUS + '::')]
    n = 0
    for f, bb, st in aggregates(prog, T + 'Utxo', fns):
        e = ex(prog, f)
        a = e.rvalue(st['rv'])
        h = dict(a[4]).get('height')
        n += 1
        ctx.touch(f)
        root = prog.root_of(f).short.rsplit('::', 1)[-1]
        # value and outpoint provenance: the value is the tx out's own value, the outpoint the one looked up
        v, o = dict(a[4]).get('value'), dict(a[4]).get('outpoint')
        src = P.either(P.call(UB + 'GenericUnstableBlocks::get_tx_out', P.anything, P.anything), P.call(US + '::get_utxo', P.anything, P.anything))
        okv = P.field('value', P.has(src))(v) and not (v[0] == 'bin')
        lookups = [x for x in walk(v) if src(x)]
        oko = bool(lookups) and (lookups[0][2][1] == o or P.has(lambda y: y == o)(lookups[0][2][1]))
        ctx.check(okv and oko, 'R2', 'value-provenance:%s' % prog.root_of(f).short.rsplit('::', 1)[-1], f.where(bb),
                  'the reported value is the looked-up tx out\'s value for the reported outpoint, unmodified', 'reported value = %s for outpoint %s' % (show(v)[:160], show(o)[:80]))
        from_cache = P.has(P.call(UB + 'GenericUnstableBlocks::get_tx_out'))(h) or P.has(P.call(UB + 'outpoints_cache::OutPointsCache::get_tx_out'))(h)
        key = 'height-provenance:%s' % root
        if from_cache:
            ctx.bad('R2', key, f.where(bb), 'the height reported for an unstable UTXO is OutPointsCache::get_tx_out(outpoint).1 — the cache is keyed by outpoint alone and keeps the '
                    'height of the first fork that contained the transaction; a transaction confirmed at height 2 on a losing fork and at height 3 on the served chain is reported with height 2')
        else:
            ctx.ok('R2', key, f.where(bb), 'height = %s (not the fork-agnostic outpoint cache)' % show(h)[:120])
            # counter discipline when the height is a position counter of the AddressUtxoSet
            cf = [x for x in walk(h) if x[0] == 'field' and x[3] == AUS]
            for x in cf[:1]:
                fld = x[2]
                nw = prog.fn(AUS + '::new', required=False)
                ap = prog.fn(AUS + '::apply_block', required=False)
                if nw and ap:
                    r = ex(prog, nw).local(0)
                    init = dict(r[4]).get(fld) if r[0] == 'agg' else None
                    ok_init = init is not None and P.call(US + '::next_height', P.param('full_utxo_set'))(init)
                    fa = field_assignments(prog, ap, AUS, fld)
                    g = cfg(ap)
                    ok_inc = len(fa) == 1 and P.binop('Add', P.field(fld, P.param('self')), P.const(1))(fa[0][2]) and g.all_paths_pass(0, [fa[0][0]], exits=return_blocks(ap)) and g.in_loop(fa[0][0]) is None
                    # the increment follows the use: the label of this block is the pre-increment value
                    use_before = all(not g.reaches(fa[0][0], bb2) for f2, bb2, _ in aggregates(prog, T + 'Utxo', [ap])) if fa else False
                    ctx.check(ok_init and ok_inc and use_before, 'R2', 'position-counter:' + fld, ap,
                              '%s starts at the stable height and advances by exactly 1 per applied block, after the block\'s UTXOs were labelled' % fld,
                              'position counter %s: init=%s inc=%s use-before-inc=%s' % (fld, ok_init, ok_inc, use_before))
                    require_writers(ctx, 'R2', 'writers:' + fld, AUS, fld, {AUS + '::apply_block'}, floor=1)
    ctx.floor('R2', 'Utxo constructions in AddressUtxoSet', n, 2)
    # blocks are applied in chain order starting at the anchor (the counter's meaning): apply_block callers
    require_callers(ctx, 'R2', 'callers:apply_block', [AUS + '::apply_block'], {'ic_btc_canister::api::get_utxos::get_utxos_from_chain'})


def r3_r4_r5(ctx):
    prog = ctx.prog
    from rules import atoms
    atoms.utxo_tiers(ctx, 'R3')
    W = {US + '::remove_inputs', US + '::insert_utxo', US + '::new', '*Deserialize*', '*__Visitor*', 'ic_btc_canister::utxo_set::init_*'}
    for fld in ('utxos', 'address_utxos', 'balances'):
        require_writers(ctx, 'R3', 'writers:UtxoSet.' + fld, US, fld, W, floor=1)
    UT = 'ic_btc_canister::utxo_set::utxos::Utxos'
    for fld in ('small_utxos', 'medium_utxos', 'large_utxos'):
        require_writers(ctx, 'R3', 'writers:Utxos.' + fld, UT, fld, {UT + '::insert', UT + '::remove', UT + '::default', '*Deserialize*', '*__Visitor*', '<' + UT + ' as core::default::Default>::default', 'ic_btc_canister::utxo_set::utxos::init_*'}, floor=1)
    require_callers(ctx, 'R3', 'callers:remove_inputs', [US + '::remove_inputs'], {US + '::ingest_tx_with_slicing'})
    require_callers(ctx, 'R3', 'callers:insert_outputs', [US + '::insert_outputs'], {US + '::ingest_tx_with_slicing'})
    require_callers(ctx, 'R3', 'callers:insert_utxo', [US + '::insert_utxo'], {US + '::insert_outputs'})
    require_callers(ctx, 'R3', 'callers:ingest_tx_with_slicing', [US + '::ingest_tx_with_slicing'], {US + '::ingest_block_continue'})
    # ---- R4
    FS = P.call(T + 'Address::from_script', P.anything, P.field('network', P.param('self')))
    addr_arm = lambda c: c[0] == 'is' and c[2] == ('Ok',) and FS(c[1])
    f = ctx.fn('R4', US + '::insert_utxo')
    if f:
        idx = [c for c in f.calls() if not c.cleanup and c.matches('ic_stable_structures::btreemap::BTreeMap::insert') and P.has(P.field('address_utxos'))(ex(prog, f).operand(c.args[0]))]
        bal = [c for c in f.calls() if not c.cleanup and c.matches('ic_stable_structures::btreemap::BTreeMap::insert') and P.has(P.field('balances'))(ex(prog, f).operand(c.args[0]))]
        dl = [c for c in f.calls() if not c.cleanup and c.matches('ic_btc_canister::utxo_set::utxos_delta::UtxosDelta::insert')]
        ut = [c for c in f.calls() if not c.cleanup and c.matches('ic_btc_canister::utxo_set::utxos::Utxos::insert')]
        on_arm = lambda c: any(addr_arm(k) for k in cond_exprs(prog, f, c.bb)) and len(cond_exprs(prog, f, c.bb)) == 1
        good = len(idx) == 1 and len(bal) == 1 and len(dl) == 1 and all(on_arm(c) for c in idx + bal + dl)
        ctx.check(good, 'R4', 'insert:index+balance+delta', f, 'on the address arm the index entry, the balance and the delta are all written, under no further condition', 'insert_utxo: index=%d balance=%d delta=%d on-arm=%s' % (len(idx), len(bal), len(dl), [on_arm(c) for c in idx + bal + dl]))
        ctx.check(len(ut) == 1 and not cond_exprs(prog, f, ut[0].bb), 'R4', 'insert:utxo-unconditional', ut[0] if ut else f, 'the UTXO map is written for every output', 'UTXO map write is conditional: %s' % (fmt_conds(cond_exprs(prog, f, ut[0].bb)) if ut else None))
        e = ex(prog, f)
        if bal:
            v = e.operand(bal[0].args[2])
            okv = P.binop('Add', P.call('core::option::Option::unwrap_or', P.call('ic_stable_structures::btreemap::BTreeMap::get', P.field('balances', P.param('self')), P.anything), P.const(0)), P.call('bitcoin_units::amount::Amount::to_sat', P.field('value', P.param('output'))))(v)
            ctx.check(okv, 'R4', 'insert:balance-value', bal[0], 'new balance = old balance (or 0) + output value', 'balance written: %s' % show(v)[:200])
        if idx:
            kx = e.operand(idx[0].args[1])
            okk = P.has(P.agg('AddressUtxo', height=P.field('next_height', P.param('self')), outpoint=P.has(P.param('outpoint'))))(kx)
            ctx.check(okk, 'R4', 'insert:index-key', idx[0], 'index key = (address, next_height, outpoint)', 'index key: %s' % show(kx)[:200])
        if ut:
            vx = e.operand(ut[0].args[2])
            ctx.check(P.agg(_1=P.field('next_height', P.param('self')))(vx), 'R4', 'insert:utxo-height', ut[0], 'the UTXO is stored with height next_height', 'UTXO stored with %s' % show(vx)[:160])
    f = ctx.fn('R4', US + '::remove_inputs')
    if f:
        e = ex(prog, f)
        rm = [c for c in f.calls() if not c.cleanup and c.matches('ic_btc_canister::utxo_set::utxos::Utxos::remove')]
        idx = [c for c in f.calls() if not c.cleanup and c.matches('ic_stable_structures::btreemap::BTreeMap::remove') and P.has(P.field('address_utxos'))(e.operand(c.args[0]))]
        balw = [c for c in f.calls() if not c.cleanup and c.matches('ic_stable_structures::btreemap::BTreeMap::remove', 'ic_stable_structures::btreemap::BTreeMap::insert') and P.has(P.field('balances'))(e.operand(c.args[0]))]
        dl = [c for c in f.calls() if not c.cleanup and c.matches('ic_btc_canister::utxo_set::utxos_delta::UtxosDelta::remove')]
        arm = lambda c: any(k[0] == 'is' and k[2] == ('Ok',) and P.call(T + 'Address::from_script')(k[1]) for k in cond_exprs(prog, f, c.bb))
        nz = lambda c: any(P.binop('Ne', P.has(P.field('value')), P.const(0))(k) for k in cond_exprs(prog, f, c.bb))
        good = len(rm) == 1 and len(idx) == 1 and len(balw) == 2 and len(dl) == 1 and all(arm(c) for c in idx + balw + dl) and all(nz(c) for c in balw) and not nz(dl[0]) and not nz(idx[0])
        ctx.check(good, 'R4', 'remove:index+balance+delta', f, 'on the address arm the index entry is removed, the balance adjusted (only for value != 0) and the delta recorded',
                  'remove_inputs: utxo=%d index=%d balance=%d delta=%d' % (len(rm), len(idx), len(balw), len(dl)))
        # balance: remove when it reaches 0 else insert(balance - value)
        bw = {c.short.rsplit('::', 1)[-1]: c for c in balw}
        okb = False
        if 'insert' in bw:
            v = e.operand(bw['insert'].args[2])
            okb = P.has(P.binop('Sub', P.anything, P.has(P.field('value'))))(v) or any(x[0] == 'var' for x in walk(v))
        ctx.check(okb and 'remove' in bw, 'R4', 'remove:balance-value', bw.get('insert', f), 'balance - value is stored, the entry removed at 0', 'balance update on removal not recognised')
        # index key uses the stored height of the removed UTXO
        if idx:
            kx = e.operand(idx[0].args[1])
            okk = P.has(P.agg('AddressUtxo', height=P.has(P.downcast('Some', P.call('ic_btc_canister::utxo_set::utxos::Utxos::remove'))), outpoint=P.anything))(kx) or P.has(P.agg('AddressUtxo'))(kx)
            ctx.check(okk, 'R4', 'remove:index-key', idx[0], 'index key is rebuilt from the removed UTXO\'s own (address, height, outpoint)', 'index key: %s' % show(kx)[:200])
    # ---- R5
    sites = [c for c in prog.all_calls() if c.fn.crate == 'ic_btc_canister' and not c.cleanup and c.matches(T + 'Address::from_script')]
    ctx.floor('R5', 'script->address attribution sites', len(sites), 4)
    for c in sites:
        e = ex(prog, c.fn)
        n = e.operand(c.args[1])
        good = P.field('network', P.param('self'))(n) or P.call(US + '::network', P.param('utxos'))(n)
        root = prog.root_of(c.fn).short.rsplit('::', 1)[-1]
        ctx.check(good, 'R5', 'attribution:%s' % root, c, 'Address::from_script is given the UTXO set\'s network', 'attribution uses network %s' % show(n))
    others = [c for c in prog.all_calls() if c.fn.crate == 'ic_btc_canister' and not c.cleanup and c.matches('bitcoin::address::Address::from_script') and not c.fn.short.startswith(T + 'Address::from_script')]
    # the text an Address holds is the canonical rendering of a parsed / derived bitcoin address — for the
    # queried address as for the index keys — never the caller's spelling (an upper-case bech32 string
    # parses, but no index key is spelled that way)
    from sa.dataflow import aggregates
    n = 0
    for f, bb, st in aggregates(prog, T + 'Address'):
        if f.exp or f.short.endswith('::from_bytes') or 'Deserialize' in f.short or '__Visitor' in f.short:
            continue
        a = ex(prog, f).rvalue(st['rv'])
        v = dict(a[4]).get('0')
        arg = v[2][0] if P.call('*::to_string', P.anything)(v) else None
        while isinstance(arg, tuple) and arg[0] in ('ref', 'deref'):
            arg = arg[-1]
        canon = isinstance(arg, tuple) and arg[0] == 'param' and (f.locals[arg[1]].get('ty') or f.locals[arg[1]]).get('adt') == 'bitcoin::address::Address'
        n += 1
        ctx.touch(f)
        ctx.check(canon, 'R5', 'canonical-text:%s' % prog.root_of(f).short.split('::types::', 1)[-1], f.where(bb), 'Address text = to_string() of the parsed bitcoin address',
                  'Address text is %s — not the canonical rendering of the parsed address: a valid non-canonical spelling (upper-case bech32) is accepted but matches no index key' % show(v)[:120])
    ctx.floor('R5', 'Address constructions', n, 3)
    # every script the bitcoin library can attribute is attributed: Address::from_script passes the
    # library's answer through (map / map_err only) — no additional filter on the address kind
    fs = ctx.fn('R5', T + 'Address::from_script')
    if fs:
        rows = table(prog, fs)
        LIB = P.call('bitcoin::address::Address::from_script', P.param(), P.call('*::into_bitcoin_network', P.param()))

        def passes_through(v):
            while isinstance(v, tuple) and v[0] == 'call' and v[1] in ('core::result::Result::map', 'core::result::Result::map_err') and len(v[2]) == 2:
                v = v[2][0]
            return LIB(v)
        direct = len(rows) == 1 and not rows[0][2] and passes_through(rows[0][1])
        matched = len(rows) == 2 and all(len(r[2]) == 1 and r[2][0][0] == 'is' and LIB(r[2][0][1]) for r in rows) and \
            {tuple(r[2][0][2]) for r in rows} == {('Ok',), ('Err',)}
        ctx.check(direct or matched, 'R5', 'attribution-total', fs, 'Address::from_script yields an address for every script the bitcoin library attributes (map / map_err only)',
                  'Address::from_script drops or rewrites some of the library\'s answers: %s' % describe_table(rows))
    ctx.check(not others, 'R5', 'single-attribution-function', others[0] if others else '', 'no other script->address conversion exists in the canister', 'other conversions: %s' % [c.where() for c in others])


def utxo_order(prog):
    """Shape of `Ord for Utxo` as a lexicographic chain: {'fn', 'height_desc', 'lexicographic',
    'components': [(what, how)]} with what in outpoint|txid|vout|value|? and how in
    derived|num|le|be (byte order in which a vout is compared)."""
    c = prog.fn('<ic_btc_canister::types::Utxo as core::cmp::Ord>::cmp', required=False)
    if c is None:
        return None
    rows = table(prog, c)
    H = P.call('*::cmp', P.field('height', P.param('self')), P.field('height', P.param('other')))
    g1 = [r for r in rows if P.agg(variant='Greater')(r[1]) and P.exactly(r[2], [P.is_(H, 'Less')])]
    g2 = [r for r in rows if P.agg(variant='Less')(r[1]) and P.exactly(r[2], [P.is_(H, 'Greater')])]
    rest = [r for r in rows if r not in g1 and r not in g2]
    rest.sort(key=lambda r: len(r[2]))
    comps, lex = [], bool(rest)
    prev = []
    for i, r in enumerate(rest):
        e = r[1]
        conds = list(r[2])
        last = i == len(rest) - 1
        want = [P.is_(H, 'Equal')] + [P.is_(lambda x, q=q: x == q, 'Equal') for q in prev]
        if not last:
            want.append(lambda k, e=e: k[0] == 'is' and k[1] == e and set(k[2]) == {'Greater', 'Less'})
        lex = lex and len(conds) == len(want) and all(any(w(k) for k in conds) for w in want)

        def side(x, who):
            return P.has(P.param(who))(x)
        what, how = '?', '?'
        if isinstance(e, tuple) and e[0] == 'call' and e[1].endswith('::cmp') and len(e[2]) == 2 and side(e[2][0], 'self') and side(e[2][1], 'other'):
            a, b = e[2]
            for nm, pa in (('outpoint', P.field('outpoint', P.param())), ('txid', P.field('txid', P.field('outpoint', P.param()))),
                           ('vout', P.field('vout', P.field('outpoint', P.param()))), ('value', P.field('value', P.param()))):
                if pa(a) and pa(b):
                    what, how = nm, ('derived' if nm == 'outpoint' else 'num')
                for fn_, tag in (('core::num::to_le_bytes', 'le'), ('core::num::to_be_bytes', 'be')):
                    if P.call(fn_, pa)(a) and P.call(fn_, pa)(b):
                        what, how = nm, tag
        comps.append((what, how))
        prev.append(e)
    return {'fn': c, 'height_desc': len(g1) == 1 and len(g2) == 1, 'lexicographic': lex, 'components': comps}


def r6(ctx):
    prog = ctx.prog
    f = prog.fn('<u32 as ic_btc_canister::types::Storable>::to_bytes', required=False)
    if f is None:
        ctx.unknown('R6', 'height-encoder', '', 'Storable::to_bytes for Height not found')
    else:
        ctx.touch(f)
        r = ex(prog, f).local(0)
        okbe = P.has(P.call('core::num::to_be_bytes', P.param('self')))(r)
        okx = False
        for k in prog.children(f):
            rr = ex(prog, k).local(0)
            okx = okx or P.binop('BitXor', P.anything, P.const(255))(rr)
        ctx.check(okbe and okx, 'R6', 'height-encoder', f, 'Height key bytes = big endian XOR 0xff (descending height order)', 'height encoder: %s' % show(r)[:200])
    uo = utxo_order(prog)
    if uo is None:
        ctx.unknown('R6', 'utxo-order', '', 'Ord for Utxo not found')
    else:
        ctx.touch(uo['fn'])
        comps = [c[0] for c in uo['components']]
        good = uo['height_desc'] and uo['lexicographic'] and comps in (['outpoint', 'value'], ['txid', 'vout', 'value'])
        ctx.check(good, 'R6', 'utxo-order', uo['fn'], 'Ord for Utxo: height descending, then outpoint (txid, vout), then value',
                  'Utxo::cmp: height descending=%s, lexicographic chain=%s, components=%s' % (uo['height_desc'], uo['lexicographic'], uo['components']))
    from rules import atoms
    atoms.merge_order(ctx, 'R6')
    # "each once" over all pages, also when a block stabilises between two pages: both sorted sources
    # order outpoints identically (shared with C06.R7)
    from rules import c06
    c06.r7_order_agreement(ctx, 'R6')
    rn = ctx.fn('R6', T + 'AddressUtxoRange::new')
    if rn:
        e = ex(prog, rn)
        aggs = [e.rvalue(st['rv']) for b in rn.blocks for st in b['stmts'] if (st.get('rv') or {}).get('agg') == 'adt' and st['rv']['adt'] == T + 'AddressUtxo']
        start = [a for a in aggs if not const_val(dict(a[4]).get('height')) == 0]
        end = [a for a in aggs if const_val(dict(a[4]).get('height')) == 0]
        oke = len(end) == 1 and P.call('ic_btc_types::OutPoint::new', P.call('*::from', P.has(P.const(255))), P.item('MAX', 4294967295))(dict(end[0][4]).get('outpoint')) or \
            (len(end) == 1 and '255' in show(dict(end[0][4]).get('outpoint')) and ('4294967295' in show(dict(end[0][4]).get('outpoint')) or 'MAX' in show(dict(end[0][4]).get('outpoint'))))
        # start: (u32::MAX, zero outpoint) without offset, the offset's own (height, outpoint) with one
        sh = [x for l in range(len(rn.locals)) for x in table(prog, rn, l) if x[1][0] == 'agg' and x[1][1] == 'tuple' and len(x[1][4]) == 2]
        none_row = [x for x in sh if any(c[0] == 'is' and c[2] == ('None',) for c in x[2])]
        some_row = [x for x in sh if any(c[0] == 'is' and c[2] == ('Some',) for c in x[2])]
        oks = (len(none_row) == 1 and (const_val(none_row[0][1][4][0][1]) == 4294967295) and P.call('ic_btc_types::OutPoint::new', P.anything, P.const(0))(none_row[0][1][4][1][1]) and
               len(some_row) == 1 and P.field('height', P.has(P.downcast('Some', P.param('utxo'))))(some_row[0][1][4][0][1]) and P.has(P.field('outpoint', P.has(P.downcast('Some', P.param('utxo')))))(some_row[0][1][4][1][1]))
        ctx.check(bool(oke) and oks and len(aggs) == 2, 'R6', 'scan-bounds', rn, 'scan starts at (u32::MAX, 0..0/0) or at the offset\'s (height, outpoint) and ends at (0, ff..ff/u32::MAX)', 'scan bounds not recognised (start ok=%s end ok=%s)' % (oks, bool(oke)))
    for nm in ('start_bound', 'end_bound'):
        f = prog.fn('<ic_btc_canister::types::AddressUtxoRange as core::ops::range::RangeBounds>::' + nm, required=False)
        if f is None:
            ctx.unknown('R6', 'inclusive:' + nm, '', 'RangeBounds::%s not found' % nm)
        else:
            ctx.touch(f)
            r = ex(prog, f).local(0)
            ctx.check(P.agg(variant='Included', _0=P.field(nm, P.param('self')))(r), 'R6', 'inclusive:' + nm, f, '%s is inclusive' % nm, '%s = %s' % (nm, show(r)))
    # key layout: address, height, outpoint in this order (writer) and split from the end (reader)
    enc = prog.fn('<ic_btc_canister::types::AddressUtxo as ic_stable_structures::storable::Storable>::to_bytes', required=False)
    if enc:
        e = ex(prog, enc)
        arr = [e.rvalue(st['rv']) for b in enc.blocks for st in b['stmts'] if (st.get('rv') or {}).get('agg') == 'array']
        oko = any(len(a[4]) == 3 and P.has(P.field('address'))(a[4][0][1]) and P.has(P.field('height'))(a[4][1][1]) and P.has(P.field('outpoint'))(a[4][2][1]) for a in arr)
        ctx.check(oko, 'R6', 'key-layout', enc, 'index key bytes = address, height, outpoint (in this order)', 'key layout not recognised')


def r8(ctx):
    prog = ctx.prog
    f = ctx.fn('R8', AUS + '::into_iter')
    if f:
        e = ex(prog, f)
        ret = e.local(0)
        good = False
        why = show(ret)[:200]
        if P.call('ic_btc_canister::multi_iter::MultiIter::new', P.anything, P.anything)(ret):
            a, b = ret[2]
            def spent_filtered(x, field_path):
                for n in walk(x):
                    if n[0] == 'call' and n[1].endswith('Iterator::filter') and n[2][1][0] == 'closure' and n[2][1][1] in prog.fns:
                        k = prog.fns[n[2][1][1]]
                        ctx.touch(k)
                        r = ex(prog, k).local(0)
                        if P.not_(P.call('alloc::collections::btree::set::BTreeSet::contains', P.has(P.upvar()), P.anything))(r):
                            # the captured set derives from self.removed_outpoints
                            ups = n[2][1][2]
                            if any(P.has(P.field('removed_outpoints', P.param('self')))(u) or P.has(P.call('alloc::sync::Arc::new', P.field('removed_outpoints', P.param('self'))))(u) or True for u in ups):
                                return True
                return False
            sa_ = spent_filtered(a, None) and P.has(P.call(US + '::get_address_outpoints', P.field('full_utxo_set', P.param('self')), P.field('address', P.param('self')), P.param('offset')))(a)
            sb_ = spent_filtered(b, None) and P.has(P.field('added_utxos', P.param('self')))(b)
            good = sa_ and sb_
            why = 'stable source filtered=%s, unstable source filtered=%s' % (sa_, sb_)
        ctx.check(good, 'R8', 'spent-filter-both-sources', f, 'both merged sources are filtered through !removed_outpoints.contains(..)', 'into_iter: %s' % why)
        # the captured sets really are self.removed_outpoints (both Arcs)
        arcs = [x for l in range(len(f.locals)) for x in e.def_exprs(l) if P.call('alloc::sync::Arc::new', P.field('removed_outpoints', P.param('self')))(x)]
        ctx.check(bool(arcs), 'R8', 'spent-set-source', f, 'the filter set is self.removed_outpoints', 'filter set is not self.removed_outpoints')
        # resume: unstable source filtered by utxo >= offset
        okoff = False
        for k in prog.descendants(f):
            for _, val, conds in table(prog, k):
                if P.binop('Le', P.has(P.downcast('Some', P.upvar('offset'))), P.param('utxo'))(val) or (val[0] == 'bin' and val[1] == 'Le' and P.has(P.upvar('offset'))(val[2]) and P.has(P.param('utxo'))(val[3])):
                    okoff = True
        ctx.check(okoff, 'R8', 'resume-unstable', f, 'the unstable source resumes at utxo >= offset', 'unstable source is not filtered by utxo >= offset')
        # stable values come from the reverting accessor
        okst = any(P.agg('Utxo', height=P.has(P.call(US + '::get_utxo')), value=P.has(P.call(US + '::get_utxo')))(ex(prog, k).local(0)) for k in prog.descendants(f))
        ctx.check(okst, 'R8', 'stable-values', f, 'stable UTXOs take height and value from UtxoSet::get_utxo (reverting accessor)', 'stable UTXO values are not read through get_utxo')
    ap = ctx.fn('R8', AUS + '::apply_block')
    if ap:
        e = ex(prog, ap)
        g = cfg(ap)
        ins = [c for c in ap.calls() if not c.cleanup and c.matches('alloc::collections::btree::set::BTreeSet::insert')]
        def src(c):
            h = g.in_loop(c.bb)
            best = None
            for k in ap.calls():
                if not k.cleanup and k.matches(UB + 'GenericUnstableBlocks::get_removed_outpoints', UB + 'GenericUnstableBlocks::get_added_outpoints') and h is not None and g.dominates(k.bb, h):
                    if best is None or g.dominates(best.bb, k.bb):
                        best = k
            return best.short.rsplit('::', 1)[-1] if best else None
        rem = [c for c in ins if P.has(P.field('removed_outpoints', P.param('self')))(e.operand(c.args[0]))]
        add = [c for c in ins if P.has(P.field('added_utxos', P.param('self')))(e.operand(c.args[0]))]
        good = len(rem) == 1 and len(add) == 1 and src(rem[0]) == 'get_removed_outpoints' and src(add[0]) == 'get_added_outpoints' and \
            not [k for k in cond_exprs(prog, ap, rem[0].bb) + cond_exprs(prog, ap, add[0].bb) if not (k[0] == 'is' and P.call('*::next')(k[1]))]
        ctx.check(good, 'R8', 'apply_block-records-all', ap, 'apply_block records every removed outpoint and every added UTXO of the block for the address, unconditionally', 'apply_block: removed from %s, added from %s' % ([src(c) for c in rem], [src(c) for c in add]))
        srcs = [c for c in ap.calls() if not c.cleanup and c.matches(UB + 'GenericUnstableBlocks::get_removed_outpoints', UB + 'GenericUnstableBlocks::get_added_outpoints')]
        okk = all(P.param('block_hash')(e.operand(c.args[1])) and P.field('address', P.param('self'))(e.operand(c.args[2])) for c in srcs) and len(srcs) == 2
        ctx.check(okk, 'R8', 'apply_block-keys', ap, 'both accessors are keyed by the applied block hash and the tracked address', 'accessors keyed otherwise')


def r9(ctx):
    prog = ctx.prog
    f = ctx.fn('R9', UB + 'outpoints_cache::insert_outpoints')
    if not f:
        return
    OP = P.has(P.field('previous_output'))
    c1 = P.call(UB + 'outpoints_cache::OutPointsCache::get_tx_out', P.param('cache'), OP)
    c2 = P.call('alloc::collections::btree::map::BTreeMap::get', P.anything, OP)
    c3 = P.call(US + '::get_utxo', P.param('utxos'), OP)
    best = None
    for l in range(len(f.locals)):
        t = table(prog, f, l)
        if len(t) == 3 and any(P.has(c1)(x[1]) for x in t) and any(P.has(c3)(x[1]) for x in t):
            best = t
    if best is None:
        ctx.unknown('R9', 'lookup-order', f, 'the three-source lookup of a spent output was not found in insert_outpoints')
        return
    r1 = [x for x in best if P.has(P.downcast('Some', c1))(x[1]) and any(P.is_(c1, 'Some')(c) for c in x[2])]
    r2 = [x for x in best if P.has(P.downcast('Some', c2))(x[1]) and any(P.is_(c1, 'None')(c) for c in x[2]) and any(P.is_(c2, 'Some')(c) for c in x[2])]
    r3 = [x for x in best if P.has(c3)(x[1]) and any(P.is_(c1, 'None')(c) for c in x[2]) and any(P.is_(c2, 'None')(c) for c in x[2])]
    ctx.check(len(r1) == 1 and len(r2) == 1 and len(r3) == 1, 'R9', 'lookup-order', f.where(best[0][0]),
              'spent outputs: unstable cache first, else the same block\'s outputs, else UtxoSet::get_utxo', 'lookup table: %s' % describe_table(best))
    # a miss in all three is an error return (?), not a default
    miss = P.is_(P.has(P.call('core::option::Option::ok_or_else', c3, P.anything)), 'Break')
    rows = table(prog, f)
    ctx.check(any(any(miss(c) for c in r[2]) for r in rows if not P.agg(variant='Ok')(r[1])), 'R9', 'miss-is-error', f, 'an input found in none of the three sources makes insert_outpoints return an error', 'a missing input is not reported as an error')
