"""C11 — Header acceptance equals the Bitcoin consensus header rules (DESIGN §5 C11)."""
from sa import pat as P
from sa.cfg import cfg
from sa.expr import ex, show, walk, cond_exprs, const_val
from sa.util import table, fmt_conds, describe_table, glob_any, local_assignments

EXPLANATION = (
    "Decides every decision point and constant of the header rule as extracted decision tables over the resolved MIR: "
    "R1 the Ok(()) return of validate_header lies exactly under: parent found, timestamp valid (?), declared target <= "
    "max_target(network), validate_pow(declared target) ok, validate_pow(get_next_target(parent, store.height(), "
    "header.time)) ok, and each failure returns its own error; R2 timestamp predicates (time <= median of the sorted, up "
    "to 11, preceding timestamps -> HeaderIsOld; time > now + 2*3600 s -> HeaderIsTooFarInFuture); R3 per-network tables "
    "(max_target, pow_limit_bits, no_pow_retargeting), the constants 2016 and 600, the dispatch of get_next_target and "
    "the canister's network mapping (Testnet -> Testnet4); R4 the walk-back predicate; R5 the retarget inputs incl. the "
    "BIP94 base for Testnet4 only; R6 the store semantics the canister supplies (height, get_with_height). "
    "Does NOT decide: numeric equality with consensus on all chains; arithmetic inside the bitcoin crate (4x clamp, "
    "compact encoding, PoW hash comparison) is trusted.")
RULES = {
    'R1': 'decision table of HeaderValidator::validate_header (five checks gate Ok)',
    'R2': 'timestamp predicates: median of <= 11 sorted predecessors, +2h bound',
    'R3': 'per-network constant tables and dispatch of get_next_target',
    'R4': 'walk-back predicate of find_next_difficulty_in_chain',
    'R5': 'retarget inputs of compute_next_difficulty (interval test, base bits, timespan)',
    'R6': 'HeaderStore semantics of the canister\'s ValidationContext; initial hash = trait default (genesis), not overridden',
}
ASSUMPTIONS = ['bitcoin crate: Header::validate_pow, Header::target, Target::from_compact, CompactTarget::from_next_work_required (4x clamp) are correct']

HV = 'ic_btc_validation::header::HeaderValidator::'
NET = P.field('network', P.param('self'))
STORE = P.field('store', P.param('self'))
HDR = P.param('header')
MULT = lambda h: P.call('core::num::is_multiple_of', h, P.item('DIFFICULTY_ADJUSTMENT_INTERVAL', 2016))
PREV_H1 = P.binop('Add', P.param('prev_height'), P.const(1))


def row(rows, pred):
    return [r for r in rows if pred(r[1])]


def run(ctx):
    prog = ctx.prog
    r1(ctx)
    r2(ctx)
    r3(ctx)
    r4(ctx)
    r5(ctx)
    r6(ctx)


def r1(ctx):
    prog = ctx.prog
    f = ctx.fn('R1', HV + 'validate_header')
    if not f:
        return
    rows = table(prog, f)
    ctx.floor('R1', 'rows of validate_header', len(rows), 6)
    parent = P.call('ic_btc_validation::header::HeaderStore::get_with_block_hash', STORE, P.field('prev_blockhash', HDR))
    ts = P.has(P.call(HV + 'is_timestamp_valid', P.param('self'), HDR, P.param('current_time')))
    tgt = P.call('bitcoin::blockdata::block::Header::target', HDR)
    maxt = P.call('ic_btc_validation::constants::max_target', NET)
    pow1 = P.call('bitcoin::blockdata::block::Header::validate_pow', HDR, tgt)
    nxt = P.call(HV + 'get_next_target', P.param('self'), P.has(P.downcast('Some', parent)),
                 P.call('ic_btc_validation::header::HeaderStore::height', STORE), P.field('time', HDR))
    pow2 = P.call('bitcoin::blockdata::block::Header::validate_pow', HDR, nxt)
    checks = [
        ('parent-known', P.is_(parent, 'Some')),
        ('timestamp-valid', P.is_(ts, 'Continue')),
        ('target<=max', P.binop('Le', tgt, maxt)),
        ('pow-for-declared-target', P.either(P.not_(P.call('core::result::Result::is_err', pow1)), P.call('core::result::Result::is_ok', pow1), P.is_(pow1, 'Ok'))),
        ('pow-for-required-target', P.either(P.is_(pow2, 'Ok'), P.call('core::result::Result::is_ok', pow2), P.not_(P.call('core::result::Result::is_err', pow2)))),
    ]
    oks = row(rows, P.agg(variant='Ok'))
    if len(oks) != 1:
        ctx.unknown('R1', 'ok-row', f, 'expected one Ok(()) return in validate_header, found %d' % len(oks))
    else:
        for name, p in checks:
            ctx.check(any(p(c) for c in oks[0][2]), 'R1', 'ok-requires:' + name, f.where(oks[0][0]),
                      'a header is accepted only if `%s`' % name,
                      'the Ok(()) return of validate_header is not conditional on `%s`; it is returned under: %s' % (name, fmt_conds(oks[0][2])))
        ctx.check(len(oks[0][2]) == len(checks), 'R1', 'ok-exactly-five', f.where(oks[0][0]), 'acceptance depends on exactly these five checks',
                  'acceptance depends on %d conditions: %s' % (len(oks[0][2]), fmt_conds(oks[0][2])))
    errs = {
        'PrevHeaderNotFound': P.is_(parent, 'None'),
        'TargetDifficultyAboveMax': P.binop('Lt', maxt, tgt),
        'InvalidPoWForHeaderTarget': P.either(P.call('core::result::Result::is_err', pow1), P.is_(pow1, 'Err')),
        'InvalidPoWForComputedTarget': P.either(P.is_(pow2, 'Err'), P.call('core::result::Result::is_err', pow2)),
    }
    for v, p in errs.items():
        rs = row(rows, P.agg(variant='Err', _0=P.agg(variant=v)))
        good = len(rs) == 1 and any(p(c) for c in rs[0][2])
        ctx.check(good, 'R1', 'err-row:' + v, f.where(rs[0][0]) if rs else f, '%s is returned exactly when its check fails' % v,
                  '%s row missing or under the wrong condition: %s' % (v, describe_table(rs)))


def r2(ctx):
    prog = ctx.prog
    f = ctx.fn('R2', HV + 'is_timestamp_valid')
    if f:
        rows = table(prog, f)
        times = P.either(P.var(), P.call('alloc::vec::Vec::new'))
        e = ex(prog, f)
        median = P.index(P.either(times, P.call('alloc::vec::Vec::new')), P.binop('Div', P.length(P.either(times, P.call('alloc::vec::Vec::new'))), P.const(2)))
        old = row(rows, P.agg(variant='Err', _0=P.agg(variant='HeaderIsOld')))
        good = len(old) == 1 and any(P.binop('Le', P.field('time', HDR), median)(c) for c in old[0][2])
        ctx.check(good, 'R2', 'header-is-old', f.where(old[0][0]) if old else f, 'HeaderIsOld exactly when header.time <= times[len/2]',
                  'HeaderIsOld predicate is %s' % describe_table(old))
        oks = row(rows, P.agg(variant='Ok'))
        good = len(oks) == 1 and any(P.binop('Lt', median, P.field('time', HDR))(c) for c in oks[0][2]) and \
            any(P.is_(P.has(P.call('ic_btc_validation::header::timestamp_is_at_most_2h_in_future', P.call('core::time::Duration::from_secs', P.cast(P.field('time', HDR))), P.param('current_time'))), 'Continue')(c) for c in oks[0][2])
        ctx.check(good, 'R2', 'timestamp-ok', f.where(oks[0][0]) if oks else f, 'Ok only if median < header.time and the +2h check (on header.time, current_time) passed',
                  'Ok row of is_timestamp_valid: %s' % describe_table(oks))
        g = cfg(f)
        sorts = [c for c in f.calls() if not c.cleanup and c.matches('core::slice::sort_unstable', 'core::slice::sort', 'alloc::slice::sort', 'core::slice::sort_unstable_by*', 'alloc::slice::sort_by*')]
        idx = [c for c in f.calls() if not c.cleanup and c.matches('<alloc::vec::Vec as core::ops::index::Index>::index')]
        ctx.check(bool(sorts) and bool(idx) and all(g.dominates(sorts[0].bb, i.bb) for i in idx), 'R2', 'sorted-before-median', sorts[0] if sorts else f,
                  'the timestamps are sorted before the median is taken', 'median is taken from unsorted timestamps')
        # loop bound 11 and what is pushed
        rng = list({x for b in f.blocks for st in b['stmts'] if 'rv' in st for x in [e.rvalue(st['rv'])] if P.agg('Range')(x)})
        good = len(rng) == 1 and const_val(dict(rng[0][4]).get('start')) == 0 and const_val(dict(rng[0][4]).get('end')) == 11
        ctx.check(good, 'R2', 'eleven-predecessors', f, 'the walk covers at most 11 predecessors (0..11)', 'predecessor loop range is %s' % [show(x) for x in rng])
        push = [c for c in f.calls() if not c.cleanup and c.matches('alloc::vec::Vec::push')]
        goodp = len(push) == 1 and P.field('time', P.has(P.downcast('Some', P.call('ic_btc_validation::header::HeaderStore::get_with_block_hash', STORE, P.has(P.field('prev_blockhash'))))))(e.operand(push[0].args[1]))
        ctx.check(goodp, 'R2', 'pushes-parent-time', push[0] if push else f, 'each step records the parent header\'s time', 'pushed value is %s' % [show(e.operand(c.args[1])) for c in push])
    f2 = ctx.fn('R2', 'ic_btc_validation::header::timestamp_is_at_most_2h_in_future')
    if f2:
        rows = table(prog, f2)
        lim = P.call('<core::time::Duration as core::ops::arith::Add>::add', P.param('current_time'), P.either(
            P.call('core::time::<impl core::ops::arith::Mul<core::time::Duration> for u32>::mul', P.const(2), P.item('ONE_HOUR')),
            P.call('<core::time::Duration as core::ops::arith::Mul<u32>>::mul', P.item('ONE_HOUR'), P.const(2)),
            P.call('*::mul', P.const(2), P.item('ONE_HOUR'))))
        far = row(rows, P.agg(variant='Err', _0=P.agg(variant='HeaderIsTooFarInFuture')))
        good = len(far) == 1 and P.exactly(far[0][2], [P.binop('Lt', lim, P.param('block_time'))])
        ctx.check(good, 'R2', 'two-hours', f2.where(far[0][0]) if far else f2, 'HeaderIsTooFarInFuture exactly when block_time > current_time + 2 * ONE_HOUR',
                  'future bound predicate is %s' % describe_table(far))
        c = prog.consts.get('ic_btc_validation::header::ONE_HOUR', {})
        ctx.check('secs: 3600_u64' in c.get('s', '') and 'Nanoseconds(0_u32' in c.get('s', ''), 'R2', 'one-hour', '', 'ONE_HOUR = 3600 s', 'ONE_HOUR = %s' % c.get('s'))


def r3(ctx):
    prog = ctx.prog
    for name, v in (('ic_btc_validation::constants::DIFFICULTY_ADJUSTMENT_INTERVAL', 2016), ('ic_btc_validation::constants::TEN_MINUTES', 600)):
        c = prog.consts.get(name, {})
        ctx.check(c.get('int') == v, 'R3', 'const:' + name.rsplit('::', 1)[-1], '', '%s = %d' % (name, v), '%s = %s (expected %d)' % (name, c.get('s'), v))
    f = ctx.fn('R3', 'ic_btc_validation::constants::max_target')
    if f:
        rows = table(prog, f)
        want = {('Bitcoin',): 'MAX_ATTAINABLE_MAINNET', ('Testnet', 'Testnet4'): 'MAX_ATTAINABLE_TESTNET', ('Regtest',): 'MAX_ATTAINABLE_REGTEST', ('Signet',): 'MAX_ATTAINABLE_SIGNET'}
        got = {}
        for _, e, c in rows:
            if len(c) == 1 and c[0][0] == 'is' and e[0] == 'item':
                got[c[0][2]] = e[1].rsplit('::', 1)[-1]
        ctx.check(got == want, 'R3', 'table:max_target', f, 'max_target per network = %s' % want, 'max_target table is %s' % got)
    f = ctx.fn('R3', 'ic_btc_validation::constants::pow_limit_bits')
    if f:
        got = {}
        from sa.util import find_locals
        for l in find_locals(prog, f, lambda x, l: const_val(x) == 0x207fffff):
            for bb, e, c in table(prog, f, l):
                if len(c) == 1 and c[0][0] == 'is':
                    got[c[0][2]] = const_val(e)
        want = {('Bitcoin',): 0x1d00ffff, ('Testnet', 'Testnet4'): 0x1d00ffff, ('Regtest',): 0x207fffff, ('Signet',): 0x1e0377ae}
        ret = ex(prog, f).local(0)
        ctx.check(got == want and P.call('bitcoin::pow::CompactTarget::from_consensus', P.anything)(ret), 'R3', 'table:pow_limit_bits', f,
                  'pow_limit_bits per network = 0x1d00ffff / 0x1d00ffff / 0x207fffff / 0x1e0377ae', 'pow_limit_bits table is %s' % {k: hex(v) if isinstance(v, int) else v for k, v in got.items()})
    f = ctx.fn('R3', 'ic_btc_validation::constants::no_pow_retargeting')
    if f:
        got = {}
        for _, e, c in table(prog, f):
            if len(c) == 1 and c[0][0] == 'is':
                got[c[0][2]] = const_val(e)
        ctx.check(got == {('Regtest',): 1, ('Bitcoin', 'Signet', 'Testnet', 'Testnet4'): 0}, 'R3', 'table:no_pow_retargeting', f,
                  'no_pow_retargeting is true only for Regtest', 'no_pow_retargeting table is %s' % got)
    f = ctx.fn('R3', HV + 'get_next_target')
    if f:
        rows = table(prog, f)
        args3 = (P.param('self'), P.param('prev_header'), P.param('prev_height'))
        walk_ = P.call('bitcoin::pow::Target::from_compact', P.call(HV + 'find_next_difficulty_in_chain', *args3))
        retg = P.call('bitcoin::pow::Target::from_compact', P.call(HV + 'compute_next_difficulty', *args3))
        tn = P.is_(NET, 'Regtest', 'Testnet', 'Testnet4')
        late = P.binop('Lt', P.binop('Add', P.field('time', P.param('prev_header')), P.binop('Mul', P.item('TEN_MINUTES', 600), P.const(2))), P.param('timestamp'))
        early = P.binop('Le', P.param('timestamp'), P.binop('Add', P.field('time', P.param('prev_header')), P.binop('Mul', P.item('TEN_MINUTES', 600), P.const(2))))
        expected = [
            ('testnet:min-difficulty-after-20min', P.call('ic_btc_validation::constants::max_target', NET), [tn, P.not_(MULT(PREV_H1)), late]),
            ('testnet:walk-back', walk_, [tn, P.not_(MULT(PREV_H1)), early]),
            ('testnet:retarget-at-interval', retg, [tn, MULT(PREV_H1)]),
            ('mainnet:retarget', retg, [P.is_(NET, 'Bitcoin', 'Signet')]),
        ]
        for name, vp, cp in expected:
            rs = [r for r in rows if vp(r[1]) and P.exactly(r[2], cp)]
            ctx.check(len(rs) == 1, 'R3', 'dispatch:' + name, f.where(rs[0][0]) if rs else f, 'get_next_target row `%s` present with its exact condition' % name,
                      'get_next_target has no row `%s`; table: %s' % (name, describe_table(rows)))
        ctx.check(len(rows) == len(expected), 'R3', 'dispatch:rows', f, 'get_next_target has exactly %d rows' % len(expected), 'get_next_target has %d rows: %s' % (len(rows), describe_table(rows)))
    f = ctx.fn('R3', 'ic_btc_canister::types::into_bitcoin_network')
    if f:
        got = {}
        for _, e, c in table(prog, f):
            if len(c) == 1 and c[0][0] == 'is' and e[0] == 'agg':
                got[c[0][2]] = e[3]
        ctx.check(got == {('Mainnet',): 'Bitcoin', ('Testnet',): 'Testnet4', ('Regtest',): 'Regtest'}, 'R3', 'table:into_bitcoin_network', f,
                  'canister network mapping: Mainnet->Bitcoin, Testnet->Testnet4, Regtest->Regtest', 'network mapping is %s' % got)
    ib = ctx.fn('R3', 'ic_btc_canister::state::insert_block')
    if ib:
        e = ex(prog, ib)
        cs = [c for c in ib.calls_to('ic_btc_validation::block::BlockValidator::new') if not c.cleanup]
        good = bool(cs) and P.call('ic_btc_canister::types::into_bitcoin_network', P.call('ic_btc_canister::state::GenericState::network', P.anything))(e.operand(cs[0].args[1]))
        ctx.check(good, 'R3', 'validator-network', cs[0] if cs else ib, 'blocks are validated for into_bitcoin_network(state.network())', 'validator network argument not derived from state.network()')


def r4(ctx):
    prog = ctx.prog
    f = ctx.fn('R4', HV + 'find_next_difficulty_in_chain')
    if not f:
        return
    e = ex(prog, f)
    g = cfg(f)
    limit = P.call('ic_btc_validation::constants::pow_limit_bits', NET)
    from sa.util import find_locals, is_var
    l_hdr = find_locals(prog, f, lambda x, l: P.param('prev_header')(x), lambda x, l: not P.param('prev_header')(x))
    l_hgt = find_locals(prog, f, lambda x, l: P.param('prev_height')(x), lambda x, l: x[0] == 'bin' and x[1] == 'Sub' and is_var(l)(x[2]))
    CUR_HDR = is_var(l_hdr[0]) if len(l_hdr) == 1 else (lambda x: False)
    CUR_HGT = is_var(l_hgt[0]) if len(l_hgt) == 1 else (lambda x: False)
    l_hash = find_locals(prog, f, lambda x, l: P.call('bitcoin::blockdata::block::Header::block_hash', CUR_HDR)(x), lambda x, l: not P.call('bitcoin::blockdata::block::Header::block_hash', CUR_HDR)(x))
    CUR_HASH = is_var(l_hash[0]) if len(l_hash) == 1 else (lambda x: False)
    cur_bits = P.field('bits', CUR_HDR)
    step = [c for c in f.calls() if not c.cleanup and c.matches('ic_btc_validation::header::HeaderStore::get_with_block_hash')]
    if len(step) != 1:
        ctx.unknown('R4', 'step', f, 'expected one parent lookup in find_next_difficulty_in_chain, found %d' % len(step))
        return
    conds = cond_exprs(prog, f, step[0].bb)
    want = [P.is_(NET, 'Regtest', 'Testnet', 'Testnet4'), P.binop('Eq', limit, cur_bits), P.not_(MULT(CUR_HGT)),
            P.binop('Ne', P.call('ic_btc_validation::header::HeaderStore::get_initial_hash', STORE), CUR_HASH)]
    ctx.check(P.exactly(conds, want), 'R4', 'continue-condition', step[0],
              'the walk steps to the parent exactly while bits == pow_limit && height % 2016 != 0 && not at the initial header',
              'walk-back continues under: %s' % fmt_conds(conds))
    arg = e.operand(step[0].args[1])
    ctx.check(P.has(P.field('prev_blockhash', CUR_HDR))(arg), 'R4', 'steps-to-parent', step[0],
              'the next header is looked up by current_header.prev_blockhash', 'parent lookup key is %s' % show(arg))
    rows = table(prog, f)
    hdr = g.in_loop(step[0].bb)
    inloop = [r for r in rows if cur_bits(r[1]) and hdr is not None and g.dominates(hdr, r[0])]
    ctx.check(len(inloop) == 1, 'R4', 'returns-current-bits', f.where(inloop[0][0]) if inloop else f, 'on stop the current header\'s bits are returned', 'rows: %s' % describe_table(rows))
    hs = l_hgt
    decs = []
    for l in hs:
        for bb, x in local_assignments(prog, f, l):
            if x[0] == 'bin' and x[1] == 'Sub':
                decs.append((bb, x))
    good = len(decs) == 1 and const_val(decs[0][1][3]) == 1 and g.dominates(step[0].bb, decs[0][0])
    ctx.check(good, 'R4', 'height-decrement', f.where(decs[0][0]) if decs else f, 'height is decremented by 1 together with the step to the parent', 'height updates: %s' % [show(x) for _, x in decs])


def r5(ctx):
    prog = ctx.prog
    f = ctx.fn('R5', HV + 'compute_next_difficulty')
    if not f:
        return
    e = ex(prog, f)
    rows = table(prog, f)
    PH = P.param('prev_header')
    early = row(rows, P.field('bits', PH))
    ctx.check(len(early) == 1, 'R5', 'early-return-prev-bits', f.where(early[0][0]) if early else f, 'outside a retarget boundary (or with no retargeting) the previous bits are kept', 'rows: %s' % describe_table(rows))
    full = [r for r in rows if P.call('bitcoin::pow::CompactTarget::from_next_work_required')(r[1])]
    if len(full) != 1:
        ctx.unknown('R5', 'retarget-row', f, 'retarget row not found: %s' % describe_table(rows))
        return
    bb, val, conds = full[0]
    want = [MULT(PREV_H1), P.not_(P.call('ic_btc_validation::constants::no_pow_retargeting', NET))]
    ctx.check(P.exactly(conds, want), 'R5', 'retarget-condition', f.where(bb), 'retarget exactly when (prev_height + 1) % 2016 == 0 and the network retargets', 'retarget condition: %s' % fmt_conds(conds))
    adj_h = P.call('core::num::saturating_sub', PREV_H1, P.item('DIFFICULTY_ADJUSTMENT_INTERVAL', 2016))
    adj = P.call('core::option::Option::expect', P.call('ic_btc_validation::header::HeaderStore::get_with_height', STORE, adj_h), P.anything)
    timespan = P.maybe_cast(P.call('core::num::saturating_sub', P.field('time', PH), P.field('time', adj)))
    a = val[2]
    ctx.check(len(a) == 3 and timespan(a[1]), 'R5', 'timespan', f.where(bb), 'timespan = prev.time (saturating) - time of the header at height - 2016', 'timespan argument is %s' % show(a[1]) if len(a) == 3 else 'arity')
    ctx.check(len(a) == 3 and NET(a[2]), 'R5', 'network-arg', f.where(bb), 'network passed to from_next_work_required is self.network', 'network argument is %s' % (show(a[2]) if len(a) == 3 else '?'))
    # base bits: Testnet4 -> last adjustment header's bits, otherwise prev_header.bits
    got = {}
    from sa.util import find_locals, is_var
    l_last = find_locals(prog, f, lambda x, l: P.field('bits', adj)(x), lambda x, l: P.field('bits', PH)(x))
    for l in l_last:
        for _, x, c in table(prog, f, l):
            netc = [k for k in c if k[0] == 'is' and NET(k[1])]
            if netc:
                got[netc[0][2]] = 'adj' if P.field('bits', adj)(x) else 'prev' if P.field('bits', PH)(x) else show(x)
    ctx.check(got == {('Testnet4',): 'adj', ('Bitcoin', 'Regtest', 'Signet', 'Testnet'): 'prev'} and len(a) == 3 and len(l_last) == 1 and is_var(l_last[0])(a[0]), 'R5', 'bip94-base', f,
              'base bits: first block of the period for Testnet4 (BIP94), previous header otherwise', 'base bits table is %s' % got)


def r6(ctx):
    prog = ctx.prog
    VC = '<ic_btc_canister::validation::ValidationContext as ic_btc_validation::header::HeaderStore>::'
    NH = P.call('ic_btc_canister::utxo_set::UtxoSet::next_height', P.field('utxos', P.field('state', P.param('self'))))
    CHAIN = P.field('chain', P.param('self'))
    # the walk-back loops of the validator stop at the store's initial hash: for the canister's store that
    # is the trait's default (the header at height 0, i.e. genesis) — not the anchor of the unstable blocks
    ims = [im for im in prog.impls if im['trait'].endswith('header::HeaderStore') and im['self'].get('adt') == 'ic_btc_canister::validation::ValidationContext']
    dflt = prog.fn('ic_btc_validation::header::HeaderStore::get_initial_hash', required=False)
    okd = False
    if dflt is not None:
        r = ex(prog, dflt).local(0)
        okd = P.call('*::block_hash', P.call('core::option::Option::expect', P.call('*::get_with_height', P.param('self'), P.const(0)), P.anything))(r)
        ctx.touch(dflt)
    ctx.check(len(ims) == 1 and 'get_initial_hash' not in ims[0]['fns'] and okd, 'R6', 'initial-hash-is-genesis', dflt or '',
              'the canister\'s header store uses the default get_initial_hash = hash of the header at height 0',
              'the canister\'s header store redefines get_initial_hash (or the default changed): the median-time-past and min-difficulty walk-backs stop '
              'before reaching 11 predecessors / the last non-minimum-difficulty block')
    f = ctx.fn('R6', VC + 'height')
    if f:
        r = ex(prog, f).local(0)
        good = P.binop('Sub', P.binop('Add', NH, P.cast(P.length(CHAIN))), P.const(1))(r)
        ctx.check(good, 'R6', 'height', f, 'height() = next_height + chain.len() - 1', 'height() = %s' % show(r))
    f = ctx.fn('R6', VC + 'get_with_height')
    if f:
        rows = table(prog, f)
        H = P.param('height')
        hgt = P.call(VC + 'height', P.param('self'))
        stable = [r for r in rows if P.call('ic_btc_canister::block_header_store::BlockHeaderStore::get_with_height', P.anything, H)(r[1])]
        good = len(stable) == 1 and P.exactly(stable[0][2], [P.binop('Lt', H, NH)])
        ctx.check(good, 'R6', 'get_with_height:stable', f.where(stable[0][0]) if stable else f, 'height < next_height -> stable header store', 'rows: %s' % describe_table(rows))
        idx = P.index(CHAIN, P.cast(P.binop('Sub', H, NH)))
        unst = [r for r in rows if P.agg(variant='Some')(r[1]) and P.has(idx)(r[1])]
        good = len(unst) == 1 and P.exactly(unst[0][2], [P.binop('Le', NH, H), P.binop('Le', H, hgt)])
        ctx.check(good, 'R6', 'get_with_height:unstable', f.where(unst[0][0]) if unst else f, 'next_height <= height <= height() -> chain[height - next_height]', 'rows: %s' % describe_table(rows))
        none = [r for r in rows if P.agg(variant='None')(r[1])]
        good = len(none) == 1 and P.exactly(none[0][2], [P.binop('Le', NH, H), P.binop('Lt', hgt, H)])
        ctx.check(good, 'R6', 'get_with_height:none', f.where(none[0][0]) if none else f, 'height > height() -> None', 'rows: %s' % describe_table(rows))
