"""C18 — Watchdog HTTP transforms are total, canonical and strip everything else (DESIGN §5 C18)."""
import re
from sa import pat as P
from sa.cfg import cfg
from sa.expr import ex, show, walk, cond_exprs, const_val
from sa.util import table, fmt_conds, describe_table, glob_any, field_assignments, is_panic_call, return_blocks
from sa.dataflow import aggregates, accesses
from rules.c10 import trap_sites

EXPLANATION = (
    "Decides structurally, for every registered explorer endpoint (every HttpRequestConfig::new site): R1 registry "
    "consistency — the registered transform name equals the item name of the registered function, that function is an "
    "exported canister query of that name, and its body applies the transform of the endpoint constructor whose "
    "registration names it back; R2 constructor discipline — every transform implementation returns the result of "
    "apply_to_body / apply_to_body_json, HttpRequestResult values are built only in apply_to_body with status copied from "
    "the raw response and everything else Default, the only later write is `body` from the extractor's return value and "
    "only under status == 200 and valid UTF-8, and nothing on the transform path reads the raw headers; R3 canonical "
    "body — JSON extractors build an object with exactly one key \"height\" whose value is as_u64() of an indexed member; "
    "text extractors produce json!({\"height\": n}).to_string() from parse::<u64>() or the default (empty) string; "
    "R4 totality of local code — potential trap sites of workspace functions reachable from the transform queries are "
    "confined to a two-entry allow-list (json! serialising an integer/None; immutable Index on serde_json::Value). "
    "Does NOT decide: serde_json's deterministic compact printing and parser totality (trusted).")
RULES = {
    'R1': 'registry consistency at each HttpRequestConfig::new site (name, function, export, back-reference)',
    'R2': 'result construction confined to apply_to_body; headers never read; body written only on the 200+UTF-8 arm',
    'R3': 'shape of the extractor closures: single key "height", as_u64 / parse::<u64>',
    'R4': 'PANICS(REACH(transform_*)) ⊆ allow-list',
}
ASSUMPTIONS = ['serde_json: to_string is deterministic and compact; from_str / Index on Value never panic; u64/Option<u64> serialise infallibly']
HR = 'ic_management_canister_types::HttpRequestResult'
EP = 'watchdog::endpoints::'


def run(ctx):
    prog = ctx.prog
    news = [c for c in prog.callers('watchdog::http::HttpRequestConfig::new')]
    ctx.floor('R1', 'registered endpoints (HttpRequestConfig::new sites)', len(news), 10)
    impls = []
    for c in news:
        f = c.fn
        e = ex(prog, f)
        ctx.touch(f)
        ctx.saw_calls()
        reg = e.operand(c.args[2])
        key = f.short.rsplit('::', 1)[-1]
        inner = dict(reg[4]).get('0') if P.agg(variant='Some')(reg) else None
        if not (inner is not None and P.agg('TransformFnWrapper')(inner)):
            ctx.bad('R1', 'registered:' + key, c, 'endpoint %s registers no transform function: replicas would not agree on the raw response' % key)
            continue
        d = dict(inner[4])
        name = const_val(d.get('name'))
        name = name.strip('"') if isinstance(name, str) else name
        fn_ = d.get('func')
        fid = fn_[1] if fn_ is not None and fn_[0] == 'fn' else None
        tf = prog.fn(fid, required=False) if fid else None
        ok = tf is not None and name == tf.name
        ctx.check(ok, 'R1', 'name=function:' + key, c, 'registered name "%s" is the name of the registered function' % name,
                  'registered name "%s" differs from the registered function %s' % (name, fid))
        if tf is None:
            continue
        ctx.touch(tf)
        wrappers = [w for w in prog.fns.values() if w.crate == 'watchdog' and w.export_name and re.match(r'canister_query[ .]%s$' % re.escape(name or ''), w.export_name)]
        exp_ok = len(wrappers) == 1 and tf.id in prog.reach(wrappers)
        ctx.check(exp_ok, 'R1', 'exported-query:' + key, tf, '%s is exported as canister query "%s"' % (tf.short, name), '%s is not exported as canister query "%s"' % (tf.short, name))
        # back-reference: the query's body calls an endpoint constructor that reaches this registration and applies .transform(raw)
        te = ex(prog, tf)
        r = te.local(0)
        back = False
        if P.call('watchdog::http::HttpRequestConfig::transform', P.anything, P.param('raw'))(r):
            ctor = r[2][0]
            if ctor[0] == 'call':
                cf = prog.fn(ctor[1], required=False)
                back = cf is not None and (cf.id == f.id or f.id in prog.reach([cf]))
        ctx.check(back, 'R1', 'back-reference:' + key, tf, 'query %s applies the transform of the endpoint that registers it' % name,
                  'query %s does not apply the transform of the endpoint constructor that registers it: %s' % (name, show(r)[:160]))
        impl = e.operand(c.args[3])
        if impl[0] == 'closure' and impl[1] in prog.fns:
            impls.append((key, prog.fns[impl[1]], c))
        else:
            ctx.unknown('R2', 'impl:' + key, c, 'transform implementation of %s is not a closure: %s' % (key, show(impl)))
    r2(ctx, impls)
    r3(ctx, impls)
    r4(ctx)


def r2(ctx, impls):
    prog = ctx.prog
    for key, k, c in impls:
        ctx.touch(k)
        r = ex(prog, k).local(0)
        good = P.call([EP + 'apply_to_body', EP + 'apply_to_body_json'], P.param('raw'), P.anything)(r)
        ctx.check(good, 'R2', 'via-apply_to_body:' + key, k, 'the implementation returns apply_to_body*(raw, extractor)', 'implementation of %s returns %s' % (key, show(r)[:160]))
    fns = [f for f in prog.fns.values() if f.crate == 'watchdog']
    aggs = aggregates(prog, HR, fns)
    roots = sorted({prog.root_of(f).short for f, _, _ in aggs if not prog.root_of(f).file.endswith('test_utils.rs')})
    ctx.check(roots == [EP + 'apply_to_body'], 'R2', 'constructor', '', 'HttpRequestResult values are built only in apply_to_body', 'HttpRequestResult is built in %s' % roots)
    f = ctx.fn('R2', EP + 'apply_to_body')
    if f:
        e = ex(prog, f)
        a = [e.rvalue(st['rv']) for fn_, _, st in aggs if fn_.id == f.id]
        good = len(a) == 1
        if good:
            d = dict(a[0][4])
            good = P.field('status', P.field('response', P.param('raw')))(d.get('status')) and all(P.has(P.call('*::default'))(v) for k_, v in d.items() if k_ != 'status')
        ctx.check(good, 'R2', 'fresh-response', f, 'the result starts as {status: raw.response.status, ..Default::default()}', 'result aggregate: %s' % [show(x)[:200] for x in a])
        ws = [x for x in accesses(prog, HR, 'headers', [f] + prog.descendants(f)) + accesses(prog, HR, 'body', [f]) + accesses(prog, HR, 'status', [f]) if x.kind == 'write']
        fa = field_assignments(prog, f, HR, 'body')
        good = len(fa) == 1 and P.call('alloc::string::String::into_bytes', P.has(P.either(P.param('f'), P.call('*::call_once'))))(fa[0][2]) or \
            (len(fa) == 1 and P.call('alloc::string::String::into_bytes', P.anything)(fa[0][2]) and 'call_once' in show(fa[0][2]))
        ctx.check(good, 'R2', 'body-from-extractor', f.where(fa[0][0]) if fa else f, 'the only later write is body = f(original).into_bytes()', 'body writes: %s' % [show(x[2])[:200] for x in fa])
        if fa:
            conds = cond_exprs(prog, f, fa[0][0])
            ok200 = any(P.binop('Eq', P.has(P.field('status')), P.has(P.const(200)))(c) or (c[0] == 'bin' and c[1] == 'Eq' and '200' in show(c) and 'status' in show(c)) for c in conds)
            okutf = any(P.is_(P.call('alloc::string::String::from_utf8', P.field('body', P.field('response', P.param('raw')))), 'Ok')(c) for c in conds)
            ctx.check(ok200 and okutf and len(conds) == 2, 'R2', 'body-only-on-200-utf8', f.where(fa[0][0]), 'body is set only under status == 200 and valid UTF-8 (otherwise it stays empty)', 'body is set under %s' % fmt_conds(conds)[:300])
        other = [x for x in ws if not (x.kind == 'write' and any(isinstance(p, dict) and p.get('field') == 'body' for p in x.place['p']))]
        ctx.check(not other, 'R2', 'no-other-write', other[0] if other else f, 'no other field of the result is written', 'other writes to the result: %s' % [x.where() for x in other])
    # nothing on the transform path reads raw headers
    roots = transform_roots(prog)
    reach = prog.reach(roots)
    # reads of `headers` whose base derives from the raw response (the `..Default::default()` update reads the default's)
    rd = [x for x in accesses(prog, HR, 'headers', list(reach.values())) if x.kind == 'read' and P.has(P.either(P.param('raw'), P.named('raw')))(ex(prog, x.fn).place(x.place))]
    ctx.check(not rd, 'R2', 'headers-never-read', rd[0] if rd else '', 'no function reachable from a transform query reads the response headers (%d functions)' % len(reach),
              'response headers are read at %s' % [x.where() for x in rd])
    ctx.floor('R2', 'exported transform queries', len(roots), 10)


def transform_roots(prog):
    """the user-written transform query functions (callees of the exported wrappers)"""
    out = []
    for w in prog.fns.values():
        if w.crate == 'watchdog' and w.export_name and re.match(r'canister_query[ .]transform_', w.export_name):
            name = re.sub(r'^canister_query[ .]', '', w.export_name)
            f = prog.fn('watchdog::' + name, required=False)
            if f is not None:
                out.append(f)
    return out


def r3(ctx, impls):
    prog = ctx.prog
    for key, k, c in impls:
        r = ex(prog, k).local(0)
        if not (r[0] == 'call' and len(r[2]) == 2 and r[2][1][0] == 'closure' and r[2][1][1] in prog.fns):
            ctx.unknown('R3', 'extractor:' + key, k, 'extractor closure not found')
            continue
        x = prog.fns[r[2][1][1]]
        ctx.touch(x)
        e = ex(prog, x)
        if r[1].endswith('apply_to_body_json'):
            ret = e.local(0)
            ins = [cc for cc in x.calls() if not cc.cleanup and cc.matches('serde_json::map::Map::insert')]
            good = P.agg(variant='Object')(ret) and len(ins) == 1
            if good:
                kx = e.operand(ins[0].args[1])
                vx = e.operand(ins[0].args[2])
                good = (P.has(P.const('"height"'))(kx) and
                        P.call('core::result::Result::unwrap', P.call('serde_json::value::to_value', P.call('serde_json::value::Value::as_u64', P.index(P.anything, P.anything))))(vx))
            ctx.check(good, 'R3', 'json:' + key, x, 'JSON extractor returns {"height": <member>.as_u64()} and nothing else', 'JSON extractor of %s returns %s' % (key, show(ret)[:200]))
        else:
            ret = e.local(0)
            good = P.call('core::result::Result::unwrap_or_default', P.call('core::result::Result::map', P.call('core::str::parse', P.has(P.param('text'))), P.anything))(ret)
            inner_ok = False
            if good:
                m = ret[2][0][2][1]
                if m[0] == 'closure' and m[1] in prog.fns:
                    y = prog.fns[m[1]]
                    ctx.touch(y)
                    ey = ex(prog, y)
                    ins = [cc for cc in y.calls() if not cc.cleanup and cc.matches('serde_json::map::Map::insert')]
                    ry = ey.local(0)
                    inner_ok = (len(ins) == 1 and P.has(P.const('"height"'))(ey.operand(ins[0].args[1])) and
                                P.call('core::result::Result::unwrap', P.call('serde_json::value::to_value', P.has(P.param('height'))))(ey.operand(ins[0].args[2])) and
                                P.call('<T as alloc::string::ToString>::to_string', P.agg(variant='Object'))(ry))
            pt = [cc for cc in x.calls() if not cc.cleanup and cc.matches('core::str::parse')]
            u64ok = bool(pt) and any(s.get('s') == 'u64' for s in pt[0].substs())
            ctx.check(good and inner_ok and u64ok, 'R3', 'text:' + key, x, 'text extractor returns json!({"height": n}).to_string() for parse::<u64>() = Ok(n), else the empty string',
                      'text extractor of %s returns %s' % (key, show(ret)[:200]))
    f = ctx.fn('R3', EP + 'apply_to_body_json')
    if f:
        r = ex(prog, f).local(0)
        good = P.call(EP + 'apply_to_body', P.param('raw'), P.anything)(r)
        cl = [k for k in prog.children(f)]
        okc = False
        if good and len(cl) == 1:
            k = cl[0]
            ctx.touch(k)
            rows = table(prog, k)
            fs = P.call('serde_json::de::from_str', P.has(P.param('text')))
            err = [x for x in rows if P.call('<alloc::string::String as core::default::Default>::default')(x[1]) and any(P.is_(fs, 'Err')(c) for c in x[2])]
            okr = [x for x in rows if P.call('<T as alloc::string::ToString>::to_string', P.anything)(x[1]) and any(P.is_(fs, 'Ok')(c) for c in x[2])]
            okc = len(err) == 1 and len(okr) == 1 and len(rows) == 2
        ctx.check(good and okc, 'R3', 'apply_to_body_json', f, 'invalid JSON -> empty body; valid JSON -> f(value).to_string()', 'apply_to_body_json shape not recognised')


ALLOW = (
    ('unwrap', 'Result::unwrap on value::to_value'),     # json! expansion: serialising u64 / Option<u64> cannot fail
    ('index', '<serde_json::value::Value as core::ops::index::Index>::index'),  # returns Null, never panics
)
# native-only mock registry of ic-http (cfg(not(target_arch = "wasm32"))): not part of the deployed canister
NATIVE_ONLY = ('ic_http::storage::*', 'ic_http::mock::*')


def r4(ctx):
    prog = ctx.prog
    roots = transform_roots(prog)
    reach = prog.reach(roots)
    bad = []
    n = 0
    for f in reach.values():
        ctx.touch(f)
        for k in trap_sites(prog, f):
            if k[1] == 'assert' and k[2] == 'Overflow':
                continue
            n += 1
            if (k[1], k[2]) in ALLOW or glob_any(k[0], NATIVE_ONLY):
                continue
            # unsupported-network panic of the parametrised mempool constructor: reached with constant supported networks only
            bad.append(k)
    # constructor panic: endpoint_bitcoin_mempool(_ => panic) — the exported query passes a constant supported network
    rest = []
    for k in bad:
        if k[0] == EP + 'endpoint_bitcoin_mempool' and k[1] == 'panic':
            callers = [c for c in prog.callers(EP + 'endpoint_bitcoin_mempool')]
            okc = all(P.agg(variant='BitcoinMainnet')(ex(prog, c.fn).operand(c.args[0])) or P.agg(variant='BitcoinTestnet')(ex(prog, c.fn).operand(c.args[0])) for c in callers)
            if okc and callers:
                continue
        rest.append(k)
    for k in rest:
        ctx.bad('R4', 'trap:%s|%s|%s' % k, k[0], 'potential trap on the transform path: %s in %s (%s) — the transform must be total for every response' % (k[2], k[0], k[1]))
    if not rest:
        ctx.ok('R4', 'trap-inventory', '', '%d potential trap sites in %d workspace functions reachable from the transform queries, all within the allow-list' % (n, len(reach)))
    ctx.floor('R4', 'functions reachable from transform queries', len(reach), 30)
