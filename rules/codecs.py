"""Key / value codecs of the stable stores (writer/reader table agreement). The UTXO answers of C01 are
read back from stable memory: a stable output's value and height are whatever `(TxOut, Height)::from_bytes`
makes of the bytes `to_bytes` wrote, an index entry's address / height / outpoint whatever
`AddressUtxo::from_bytes` makes of the key. ic-stable-structures uses `into_bytes` for the bytes it stores
and `to_bytes` for the bytes it looks up and removes, so the two writers of one type must agree as well.
Each function takes (ctx, rule)."""
from sa import pat as P
from sa.cfg import cfg
from sa.expr import ex, show, walk, cond_exprs, const_val

T = 'ic_btc_canister::types::'


def _self_path(e):
    """field path (from the `self` parameter, or from a variable destructured out of it) an element of
    the writer's component array is computed from: the longest chain of field accesses rooted at a parameter"""
    best = None
    for x in walk(e):
        if isinstance(x, tuple) and x[0] == 'field':
            path, y = [], x
            while isinstance(y, tuple) and y[0] == 'field':
                path.append(str(y[2]))
                y = y[1]
            if isinstance(y, tuple) and y[0] == 'param':
                path = tuple(reversed(path))
                if best is None or len(path) > len(best):
                    best = path
    return best


def _writer_components(prog, f):
    e = ex(prog, f)
    arrs = [e.rvalue(st['rv']) for b in f.blocks if not b.get('cleanup') for st in b['stmts'] if (st.get('rv') or {}).get('agg') == 'array']
    if len(arrs) != 1:
        return None
    return [_self_path(v) for _, v in arrs[0][4]]


def _calls_named(f):
    return {(c.gshort or c.short or '?').rsplit('::', 1)[-1] for c in f.calls() if not c.cleanup}


WRITERS = [
    # (function id, expected component paths, what)
    ('<(' + T + 'TxOut, u32) as ' + T + 'Storable>::to_bytes', [('0', 'value'), ('0', 'script_pubkey'), ('1',)], 'stable UTXO value = value (8 bytes), script, height (4 bytes)'),
    ('<(u32, ic_btc_types::OutPoint) as ' + T + 'Storable>::to_bytes', [('0',), ('1',)], '(height, outpoint) = height (4 bytes), outpoint'),
    ('<' + T + 'AddressUtxo as ic_stable_structures::storable::Storable>::to_bytes', [('address',), ('height',), ('outpoint',)], 'index key = address, height, outpoint'),
    ('<' + T + 'AddressUtxo as ic_stable_structures::storable::Storable>::into_bytes', [('address',), ('height',), ('outpoint',)], 'index key (owned form) = address, height, outpoint'),
]


def writer_layouts(ctx, rule):
    prog = ctx.prog
    n = 0
    for fid, want, what in WRITERS:
        f = ctx.fn(rule, fid)
        if not f:
            continue
        got = _writer_components(prog, f)
        names = _calls_named(f)
        reorder = {'rev', 'reverse', 'sort', 'skip', 'take', 'step_by', 'filter', 'chain', 'zip', 'swap', 'rotate_left', 'rotate_right', 'truncate'} & names
        n += 1
        key = 'codec-writer:' + fid.split(' as ')[0].lstrip('<').replace(T, '').replace('ic_btc_types::', '') + '::' + fid.rsplit('::', 1)[-1]
        ctx.check(got == [tuple(w) for w in want] and not reorder and {'flatten', 'collect'} <= names, rule, key, f, what + ' (concatenated in this order)',
                  'writer components are %s, expected %s (adaptors: %s)' % (got, want, sorted(reorder)))
    ctx.floor(rule, 'codec writers examined', n, 4)


def utxo_value_reader(ctx, rule):
    """(TxOut, Height)::from_bytes splits from the end: height = last 4 bytes, script = everything after the
    first 8, value = the first 8 — in this order, because each split shortens the buffer"""
    prog = ctx.prog
    f = ctx.fn(rule, '<(' + T + 'TxOut, u32) as ' + T + 'Storable>::from_bytes')
    if not f:
        return
    e = ex(prog, f)
    g = cfg(f)
    B = P.param('bytes')
    so = [c for c in f.calls() if not c.cleanup and c.matches('alloc::vec::Vec::split_off')]
    tail = [c for c in so if P.binop('Sub', P.length(B), P.const(4))(e.operand(c.args[1]))]
    head = [c for c in so if P.const(8)(e.operand(c.args[1]))]
    val = [c for c in f.calls() if not c.cleanup and (c.short or '').endswith('::from_bytes') and (c.short or '').startswith('<u64') and P.has(B)(e.operand(c.args[0]))]
    ret = e.local(0)
    H = P.call('<u32 as ' + T + 'Storable>::from_bytes', P.call('alloc::vec::Vec::split_off', B, P.binop('Sub', P.length(B), P.const(4))))
    V = P.call('<u64 as ic_stable_structures::storable::Storable>::from_bytes', P.has(B))
    S = P.call('alloc::vec::Vec::split_off', B, P.const(8))
    shape = P.agg(_0=P.agg(adt_suffix='TxOut', value=V, script_pubkey=S), _1=H)(ret)
    order = len(so) == 2 and len(tail) == 1 and len(head) == 1 and len(val) == 1 and g.dominates(tail[0].bb, head[0].bb) and g.dominates(head[0].bb, val[0].bb)
    ctx.check(shape and order, rule, 'codec-reader:(TxOut, Height)', f, 'reader: height = last 4 bytes, then script = bytes[8..], then value = bytes[..8]',
              'reader layout of the stable UTXO value not recognised / changed (shape ok=%s, split order ok=%s): %s' % (shape, order, show(ret)[:200]))


def index_key_reader(ctx, rule):
    """AddressUtxo::from_bytes: address = bytes[..len-36-4], height = the next 4, outpoint = the last 36"""
    prog = ctx.prog
    f = ctx.fn(rule, '<' + T + 'AddressUtxo as ic_stable_structures::storable::Storable>::from_bytes')
    if not f:
        return
    e = ex(prog, f)
    ret = e.local(0)
    B = P.param('bytes')
    OS = P.maybe_cast(P.call('ic_btc_types::OutPoint::size'))
    CUT = P.binop('Sub', P.length(B), OS)
    CUT4 = P.binop('Sub', CUT, P.const(4))
    IDX = lambda r: P.index(P.has(B), r) if False else (lambda x: isinstance(x, tuple) and x[0] == 'call' and x[1].endswith('::index') and len(x[2]) == 2 and P.has(B)(x[2][0]) and r(x[2][1]))
    ADDR = P.has(IDX(P.agg('Range', start=P.const(0), end=CUT4)))
    HGT = P.has(IDX(P.agg('Range', start=CUT4, end=CUT)))
    OUT = P.has(IDX(P.agg('RangeFrom', start=CUT)))
    d = dict(ret[4]) if isinstance(ret, tuple) and ret[0] == 'agg' else {}
    ok = bool(d) and P.both(P.call('<' + T + 'Address as ic_stable_structures::storable::Storable>::from_bytes', P.anything), ADDR)(d.get('address')) and \
        P.both(P.call('<u32 as ' + T + 'Storable>::from_bytes', P.anything), HGT)(d.get('height')) and \
        P.both(P.call('<ic_btc_types::OutPoint as ic_stable_structures::storable::Storable>::from_bytes', P.anything), OUT)(d.get('outpoint'))
    size = prog.fn('ic_btc_types::OutPoint::size', required=False)
    oks = False
    if size is not None:
        ctx.touch(size)
        from sa.absint import Env
        oks = Env(prog, {}).const(ex(prog, size).local(0)) == 36
    ctx.check(ok and oks, rule, 'codec-reader:AddressUtxo', f, 'reader: address = bytes[..len-36-4], height = bytes[len-36-4..len-36], outpoint = bytes[len-36..] (OutPoint::size() = 36)',
              'reader layout of the index key not recognised / changed (slices ok=%s, OutPoint::size ok=%s): %s' % (ok, oks, show(ret)[:240]))


def height_outpoint_reader(ctx, rule):
    prog = ctx.prog
    f = ctx.fn(rule, '<(u32, ic_btc_types::OutPoint) as ' + T + 'Storable>::from_bytes')
    if not f:
        return
    e = ex(prog, f)
    ret = e.local(0)
    B = P.param('bytes')
    so = P.call('alloc::vec::Vec::split_off', B, P.const(4))
    ok = P.agg(_0=P.call('<u32 as ' + T + 'Storable>::from_bytes', B), _1=P.call('<ic_btc_types::OutPoint as ic_stable_structures::storable::Storable>::from_bytes', P.has(so)))(ret)
    g = cfg(f)
    sc = [c for c in f.calls() if not c.cleanup and c.matches('alloc::vec::Vec::split_off')]
    hc = [c for c in f.calls() if not c.cleanup and (c.short or '') == '<u32 as ' + T + 'Storable>::from_bytes']
    ok = ok and len(sc) == 1 and len(hc) == 1 and g.dominates(sc[0].bb, hc[0].bb)
    ctx.check(ok, rule, 'codec-reader:(Height, OutPoint)', f, 'reader: outpoint = bytes[4..] split off first, height = the remaining 4 bytes', 'reader layout not recognised / changed: %s' % show(ret)[:200])


def all_codecs(ctx, rule):
    writer_layouts(ctx, rule)
    utxo_value_reader(ctx, rule)
    index_key_reader(ctx, rule)
    height_outpoint_reader(ctx, rule)
