"""C12 — Only structurally sound blocks pass: coinbase first, merkle root, no duplicates."""
from sa import pat as P
from sa.cfg import cfg
from sa.expr import ex, show, walk
from sa.util import table, fmt_conds, gate, describe_table, the_closure, glob_any

EXPLANATION = (
    "Decides structurally: R1 BlockValidator::validate_block runs the header validator first and the body checks only "
    "on its success, its result being the combined result; the canister admits blocks through that function (not the "
    "header validator alone); R2 in block::validate_block the only Ok(()) return lies under: txdata non-empty, "
    "txdata[0].is_coinbase(), check_merkle_root(), and the success edge of ensure_unique_transactions(txdata), and each "
    "failing check returns its own error; R3 ensure_unique_transactions visits every transaction of the slice (Ok only "
    "when the iterator is exhausted), inserts an id computed from each transaction into a set and fails exactly when "
    "insert reports a duplicate — the structure that defeats the CVE-2012-2459 family whenever the merkle root matched. "
    "Does NOT decide: merkle arithmetic of the bitcoin crate; full accept/reject equivalence over all mutations.")
RULES = {
    'R1': 'header-then-body gating in BlockValidator::validate_block; insert_block calls it',
    'R2': 'decision table of block::validate_block (4 checks gate Ok)',
    'R3': 'ensure_unique_transactions: whole-slice iteration, per-transaction id, fail iff insert == false (id must be witness-independent: ntxid / txid)',
}
ASSUMPTIONS = ['bitcoin::Block::check_merkle_root, Transaction::is_coinbase, compute_ntxid/compute_txid behave as documented']

TXDATA = P.has(P.field('txdata'))
# ids that two copies of a transaction differing only in their witness share (the merkle root commits to
# txids; a wtxid distinguishes witness variants, so it cannot detect a repeated transaction)
ID_FUNS = ('bitcoin::blockdata::transaction::Transaction::compute_ntxid', 'bitcoin::blockdata::transaction::Transaction::compute_txid')


def run(ctx):
    prog = ctx.prog
    # ---- R1
    bv = ctx.fn('R1', 'ic_btc_validation::block::BlockValidator::validate_block')
    body = ctx.fn('R1', 'ic_btc_validation::block::validate_block')
    if bv and body:
        hv = [c for c in bv.calls_to('ic_btc_validation::header::HeaderValidator::validate_header') if not c.cleanup]
        direct = [c for c in bv.calls_to(body.short) if not c.cleanup]
        ctx.saw_calls(len(bv.calls()))
        good, why = False, ''
        if hv and direct:
            good, why = gate(prog, bv, hv[0].bb, direct[0].bb)
        elif hv:
            # closure form: validate_header(..).map_err(..).and_then(|()| validate_block(block)) returned as is
            e = ex(prog, bv).local(0)
            if (e[0] == 'call' and e[1] == 'core::result::Result::and_then' and P.has(P.call('ic_btc_validation::header::HeaderValidator::validate_header'))(e[2][0])
                    and e[2][1][0] == 'closure'):
                cl = prog.fns.get(e[2][1][1])
                if cl is not None:
                    ctx.touch(cl)
                    r = ex(prog, cl).local(0)
                    good = P.call(body.short, TXDATA if False else P.anything)(r)
                    why = 'and_then closure returns %s' % show(r)
            else:
                why = 'result is %s' % show(e)
        ctx.check(good, 'R1', 'header-then-body', bv, 'body checks run only after validate_header succeeded and their result is returned (%s)' % why,
                  'BlockValidator::validate_block does not gate the body checks on the header result: %s' % why)
    ib = ctx.fn('R1', 'ic_btc_canister::state::insert_block')
    if ib:
        cs = [c for c in ib.calls_to('ic_btc_validation::block::BlockValidator::validate_block') if not c.cleanup]
        ctx.check(bool(cs), 'R1', 'insert-block-validates-body', ib, 'state::insert_block validates the whole block (BlockValidator::validate_block)',
                  'state::insert_block does not call BlockValidator::validate_block')
    # the canister pushes a block only on the success edge of that validator, for every block (shared with C10.R1/R2)
    from sa.engine import SubCtx
    from rules import c10
    if not isinstance(ctx, SubCtx):
        c10.r1_r2_insert_block(SubCtx(ctx, {'R1': 'R1', 'R2': 'R1'}))
    # ---- R2
    if body:
        rows = table(prog, body)
        oks = [r for r in rows if P.agg(variant='Ok')(r[1])]
        want = [
            P.not_(P.either(P.call('*::is_empty', TXDATA))),
            P.call('*::is_coinbase', P.index(TXDATA, P.const(0))),
            P.call('*::check_merkle_root', P.anything),
            P.is_(P.has(P.call('ic_btc_validation::block::ensure_unique_transactions', TXDATA)), 'Continue'),
        ]
        names = ['non-empty', 'first-is-coinbase', 'merkle-root', 'unique-transactions']
        if len(oks) != 1:
            ctx.unknown('R2', 'ok-row', body, 'expected exactly one Ok(()) return in block::validate_block, found %d: %s' % (len(oks), describe_table(rows)))
        else:
            miss = P.conds_match(oks[0][2], want)
            for i, n in enumerate(names):
                ctx.check(i not in miss, 'R2', 'ok-requires:' + n, body.where(oks[0][0]),
                          'Ok(()) is returned only under check `%s`' % n,
                          'the Ok(()) return of block::validate_block is not conditional on `%s` (conditions: %s)' % (n, fmt_conds(oks[0][2])))
        errs = {
            'NoTransactions': [P.call('*::is_empty', TXDATA)],
            'InvalidCoinbase': [P.not_(P.call('*::is_coinbase', P.index(TXDATA, P.const(0))))],
            'InvalidMerkleRoot': [P.not_(P.call('*::check_merkle_root', P.anything))],
        }
        for v, pats in errs.items():
            rs = [r for r in rows if P.agg(variant='Err', _0=P.agg(variant=v))(r[1])]
            good = len(rs) == 1 and not P.conds_match(rs[0][2], pats)
            ctx.check(good, 'R2', 'err-row:' + v, body.where(rs[0][0]) if rs else body, '%s is returned exactly when its check fails' % v,
                      '%s row missing or under the wrong condition: %s' % (v, describe_table(rs)))
    # ---- R3
    eu = ctx.fn('R3', 'ic_btc_validation::block::ensure_unique_transactions')
    if eu:
        rows = table(prog, eu)
        oks = [r for r in rows if P.agg(variant='Ok')(r[1])]
        errs = [r for r in rows if P.agg(variant='Err', _0=P.agg(variant='DuplicateTransactions'))(r[1])]
        nxt = P.call('<* as core::iter::traits::iterator::Iterator>::next', P.has(P.param('transactions')))
        good = len(oks) == 1 and P.exactly(oks[0][2], [P.is_(nxt, 'None')])
        ctx.check(good, 'R3', 'ok-only-when-exhausted', eu.where(oks[0][0]) if oks else eu,
                  'Ok(()) only when the iterator over the whole `transactions` slice is exhausted',
                  'ensure_unique_transactions can return Ok before all transactions were visited: %s' % describe_table(oks))
        idp = P.call(list(ID_FUNS), P.has(P.downcast('Some', nxt)))
        ins = P.call('alloc::collections::btree::set::BTreeSet::insert', P.anything, idp)
        ins2 = P.call('std::collections::hash::set::HashSet::insert', P.anything, idp)
        good = len(errs) == 1 and P.exactly(errs[0][2], [P.is_(nxt, 'Some'), P.not_(P.either(ins, ins2))])
        ctx.check(good, 'R3', 'dup-iff-insert-false', eu.where(errs[0][0]) if errs else eu,
                  'DuplicateTransactions exactly when set.insert(id(tx)) returns false, id computed from each transaction',
                  'duplicate detection is not `!set.insert(tx.compute_ntxid() | compute_txid())` per transaction (a witness-dependent id such as the wtxid does not detect '
                  'a repeated transaction whose witness was altered): %s' % describe_table(errs))
        # the iterator is over the slice itself (no skip/take/step)
        it = [c for c in eu.calls() if not c.cleanup and c.matches('*::into_iter', '*::iter')]
        bad = [c for c in eu.calls() if not c.cleanup and c.matches('*::skip', '*::take', '*::step_by', '*::filter', '*::skip_while', '*::take_while')]
        ctx.check(bool(it) and not bad, 'R3', 'whole-slice', it[0] if it else eu, 'iteration covers the whole slice (no skip/take/filter adaptor)',
                  'iteration over transactions is restricted by %s' % [c.short for c in bad])
    ctx.floor('R2', 'rows of block::validate_block', len(table(prog, body)) if body else 0, 5)
