"""C15 — Fee percentiles are nearest-rank percentiles of recent best-chain fees (DESIGN §5 C15)."""
from sa import pat as P
from sa.cfg import cfg
from sa.expr import ex, show, walk, cond_exprs, const_val
from sa.util import table, fmt_conds, describe_table, require_callers, require_writers, the_closure, glob_any, local_assignments, local_by_name, field_assignments, return_blocks

EXPLANATION = (
    "Decides structurally: R1 constants and shape — NUM_TRANSACTIONS = 10_000 is the count at every call site; "
    "percentiles(): empty -> empty, range 0..(100+1) (101 values), index = max(0, ceil_div(p * n, 100) - 1) with "
    "ceil_div(a, b) = a / b + (a % b != 0), values sorted before indexing; R2 sibling fee computations — the "
    "insertion-time path (insert_outpoints) and the fallback path (get_tx_fee_per_byte) both skip coinbases, sum the "
    "input values, checked_sub the output sum (negative -> no entry) and call types::fee_rate_per_vbyte(fee, tx.vsize()), "
    "whose value is 1000 * fee / vsize (None for vsize == 0); R3 best chain only — the input is get_main_chain, blocks "
    "are walked tip-first (rev) and the walk stops at the count in both loops; R4 cache discipline — one writer of "
    "fee_percentiles_cache, the stored key is the tip hash used for the lookup, a hit returns the cached vector, an empty "
    "fee list with a cache present returns the cached vector without overwriting it; R5 the heartbeat computes eagerly "
    "unless lazily_evaluate_fee_percentiles == Enabled, after the response processing. "
    "Does NOT decide: cache coherence across reorg histories; value equality with a reference computation.")
RULES = {
    'R1': 'constants and expression shape of percentiles()',
    'R2': 'sibling agreement of the two fee-rate computations; EXPR of fee_rate_per_vbyte; every looked-up input is counted',
    'R3': 'input chain, iteration order, stop conditions',
    'R4': 'WRITERS and decision table of the percentile cache',
    'R5': 'eager/lazy switch in the heartbeat (exact path condition)',
}
ASSUMPTIONS = ['bitcoin::Transaction::vsize is the BIP141 virtual size']
FP = 'ic_btc_canister::api::fee_percentiles::'


def run(ctx):
    prog = ctx.prog
    # ---------------- R1 ------------------------------------------------------------------------
    c = prog.consts.get(FP + 'NUM_TRANSACTIONS', {})
    ctx.check(c.get('int') == 10000, 'R1', 'NUM_TRANSACTIONS', '', 'NUM_TRANSACTIONS = 10_000', 'NUM_TRANSACTIONS = %s' % c.get('s'))
    w = FP + 'get_current_fee_percentiles_with_number_of_transactions'
    cs = prog.callers(w)
    okn = all(P.item('NUM_TRANSACTIONS', 10000)(ex(prog, k.fn).operand(k.args[1])) for k in cs)
    ctx.check(len(cs) >= 2 and okn, 'R1', 'count-at-call-sites', cs[0] if cs else '', 'all %d call sites pass NUM_TRANSACTIONS' % len(cs), 'a call site passes another transaction count')
    f = ctx.fn('R1', FP + 'percentiles')
    if f:
        g = cfg(f)
        rows = table(prog, f)
        V = P.param('values')
        empty = [r for r in rows if P.call('alloc::vec::Vec::new')(r[1]) and P.exactly(r[2], [P.call('alloc::vec::Vec::is_empty', V)])]
        rng = P.agg('Range', start=P.const(0), end=P.binop('Add', P.item('MAX_PERCENTILE', 100), P.const(1)))
        full = [r for r in rows if P.call('core::iter::traits::iterator::Iterator::collect', P.call('core::iter::traits::iterator::Iterator::map', rng, P.anything))(r[1])]
        ctx.check(len(empty) == 1 and len(full) == 1 and len(rows) == 2, 'R1', 'percentiles:shape', f, 'empty input -> empty output; otherwise 0..=100 mapped (101 values)', 'percentiles rows: %s' % describe_table(rows))
        srt = [k for k in f.calls() if not k.cleanup and k.matches('core::slice::sort_unstable', 'alloc::slice::sort')]
        mp = [k for k in f.calls() if not k.cleanup and k.matches('core::iter::traits::iterator::Iterator::map')]
        ctx.check(bool(srt) and bool(mp) and g.dominates(srt[0].bb, mp[0].bb), 'R1', 'percentiles:sorted', srt[0] if srt else f, 'values are sorted before any percentile is read', 'values are not sorted before indexing')
        cl = {k.short.rsplit('::', 1)[-1]: k for k in prog.children(f)}
        cd, ix = None, None
        for k in prog.children(f):
            r = ex(prog, k).local(0)
            if r[0] == 'bin' and r[1] == 'Add':
                cd = k
            else:
                ix = k
        okcd = False
        if cd:
            ctx.touch(cd)
            A, B = P.field('0', P.param()), P.field('1', P.param())
            A = P.either(P.param(), A)
            B = P.either(P.param(), B)
            r = ex(prog, cd).local(0)
            extra = [x for l in range(len(cd.locals)) for x in table(prog, cd, l)]
            one = any(const_val(x[1]) == 1 and any(P.binop('Ne', P.binop('Rem', A, B), P.const(0))(c) for c in x[2]) for x in extra)
            zero = any(const_val(x[1]) == 0 and any(P.binop('Eq', P.binop('Rem', A, B), P.const(0))(c) for c in x[2]) for x in extra)
            okcd = P.binop('Add', P.binop('Div', A, B), P.anything)(r) and one and zero
        ctx.check(okcd, 'R1', 'percentiles:ceil_div', cd or f, 'ceil_div(a, b) = a / b + (0 if a % b == 0 else 1)', 'ceil_div shape not recognised')
        okix = False
        if ix:
            ctx.touch(ix)
            r = ex(prog, ix).local(0)
            rank = P.cast(P.callv_or_call(P.anything, P.binop('Mul', P.param('p'), P.cast(P.length(P.upvar('values')))), P.item('MAX_PERCENTILE', 100)), 'i32') if hasattr(P, 'callv_or_call') else None
            s = show(r)
            okix = (P.index(P.upvar(), P.cast(P.call('max', P.binop('Sub', P.cast(P.anything, 'i32'), P.const(1)), P.const(0)), 'usize'))(r)
                    and any(P.binop('Mul', P.param('p'), P.cast(P.length(P.upvar()), 'u32'))(x) for x in walk(r))
                    and any(x[0] == 'item' and x[1].endswith('MAX_PERCENTILE') for x in walk(r)))
        ctx.check(okix, 'R1', 'percentiles:index', ix or f, 'value = values[max(0, ceil_div(p * n, 100) as i32 - 1)]', 'index expression: %s' % (show(ex(prog, ix).local(0))[:240] if ix else None))
    # ---------------- R2 ------------------------------------------------------------------------
    fr = ctx.fn('R2', 'ic_btc_canister::types::fee_rate_per_vbyte')
    if fr:
        rows = table(prog, fr)
        some = [r for r in rows if P.agg(variant='Some', _0=P.maybe_cast(P.binop('Div', P.binop('Mul', P.const(1000), P.param('fee_satoshi')), P.cast(P.param('vsize'), 'u64'))))(r[1]) and P.exactly(r[2], [P.binop('Lt', P.const(0), P.param('vsize'))])]
        none = [r for r in rows if P.agg(variant='None')(r[1])]
        ctx.check(len(some) == 1 and len(none) == 1 and len(rows) == 2, 'R2', 'fee_rate_per_vbyte', fr, 'fee_rate_per_vbyte = 1000 * fee / vsize (integer, rounded down); None for vsize == 0', 'fee_rate_per_vbyte: %s' % describe_table(rows))
    sib = {}
    for name, fid in (('insertion', 'ic_btc_canister::unstable_blocks::outpoints_cache::insert_outpoints'), ('fallback', FP + 'get_tx_fee_per_byte')):
        f = ctx.fn('R2', fid)
        if not f:
            continue
        e = ex(prog, f)
        d = {}
        fc = [k for k in f.calls_to('ic_btc_canister::types::fee_rate_per_vbyte') if not k.cleanup]
        d['uses-helper'] = len(fc) == 1
        if fc:
            conds = cond_exprs(prog, f, fc[0].bb)
            d['skips-coinbase'] = any(P.not_(P.call('ic_btc_types::Transaction::is_coinbase', P.anything))(c) for c in conds)
            a0, a1 = e.operand(fc[0].args[0]), e.operand(fc[0].args[1])
            d['vsize'] = P.call('ic_btc_types::Transaction::vsize', P.anything)(a1)
            from sa.util import find_locals, is_var
            l_in = find_locals(prog, f, lambda x, l: const_val(x) == 0, lambda x, l: x[0] == 'bin' and x[1] == 'Add' and (is_var(l)(x[2]) or is_var(l)(x[3])) and P.has(P.field('value'))(x))
            INSUM = is_var(l_in[0]) if len(l_in) == 1 else (lambda x: False)
            cs_ = P.call('core::num::checked_sub', INSUM, P.has(P.call('core::iter::traits::iterator::Iterator::sum')))
            d['fee=inputs-outputs(checked)'] = P.has(cs_)(a0) and (any(P.is_(P.has(cs_), 'Some')(c) or P.is_(P.has(cs_), 'Continue')(c) for c in conds))
        # input_sum accumulates txout values
        from sa.util import find_locals, is_var
        l_in2 = find_locals(prog, f, lambda x, l: const_val(x) == 0, lambda x, l: x[0] == 'bin' and x[1] == 'Add' and (is_var(l)(x[2]) or is_var(l)(x[3])) and P.has(P.field('value'))(x))
        d['sums-input-values'] = len(l_in2) == 1
        # every looked-up input is counted: the accumulation is conditional only on the loops, on the
        # coinbase / null-outpoint skip and on the lookups themselves — not, e.g., on the spent script
        # having an address form
        if len(l_in2) == 1:
            adds = [r for r in table(prog, f, l_in2[0]) if r[1][0] == 'bin' and r[1][1] == 'Add']

            def plain(c):
                if c[0] == 'is':
                    return set(c[2]) <= {'Some', 'Ok', 'Continue'} and (P.call('*::next', P.anything)(c[1]) or P.has(P.call('*::get_tx_out', P.anything, P.anything))(c[1])
                                                                        or P.has(P.call('*::get', P.anything, P.anything))(c[1]) or P.has(P.call('*::get_utxo', P.anything, P.anything))(c[1]))
                if c[0] == 'hidden':   # the failing arm of a lookup (`?` / match with an error return)
                    return any(isinstance(x, tuple) and x[0] == 'call' and x[1].rsplit('::', 1)[-1] in ('get_tx_out', 'get', 'get_utxo', 'ok_or_else', 'branch') for x in walk(c[1]))
                return P.not_(P.call('*::is_null', P.anything))(c) or P.not_(P.call('*::is_coinbase', P.anything))(c)
            d['every-looked-up-input-counted'] = len(adds) == 1 and all(plain(c) for c in adds[0][2])
        # output sum over o.value.to_sat()
        okout = False
        for k in prog.descendants(f):
            r = ex(prog, k).local(0)
            if P.call('bitcoin_units::amount::Amount::to_sat', P.field('value', P.anything))(r):
                okout = True
        d['sums-output-values'] = okout
        sib[name] = d
    keys = sorted(set().union(*[set(v) for v in sib.values()])) if sib else []
    for k in keys:
        vals = {n: v.get(k) for n, v in sib.items()}
        ctx.check(all(vals.values()) and len(vals) == 2, 'R2', 'sibling:' + k, '', 'insertion-time and fallback fee computations both satisfy `%s`' % k, '`%s`: %s — the cached and the recomputed fee rates disagree' % (k, vals))
    # ---------------- R3 ------------------------------------------------------------------------
    f = ctx.fn('R3', w)
    if f:
        e = ex(prog, f)
        gf = [k for k in f.calls_to(FP + 'get_fees_per_byte') if not k.cleanup]
        good = len(gf) == 1 and P.call('ic_btc_canister::blocktree::BlockChain::into_chain', P.call('ic_btc_canister::unstable_blocks::get_main_chain', P.field('unstable_blocks', P.param('state'))))(e.operand(gf[0].args[0])) \
            and P.param('number_of_transactions')(e.operand(gf[0].args[2]))
        ctx.check(good, 'R3', 'best-chain-input', gf[0] if gf else f, 'fees are taken from get_main_chain(unstable_blocks) with the requested count', 'fee input is %s' % (show(e.operand(gf[0].args[0]))[:160] if gf else None))
    f = ctx.fn('R3', FP + 'get_fees_per_byte')
    if f:
        e = ex(prog, f)
        g = cfg(f)
        rev = [k for k in f.calls() if not k.cleanup and k.matches('core::iter::traits::iterator::Iterator::rev')]
        good = len(rev) == 1 and P.call('core::slice::iter', P.has(P.param('main_chain')))(e.operand(rev[0].args[0]))
        ctx.check(good, 'R3', 'tip-first', rev[0] if rev else f, 'blocks are visited tip first (main_chain.iter().rev())', 'block iteration is not main_chain.iter().rev()')
        push = [k for k in f.calls() if not k.cleanup and k.matches('alloc::vec::Vec::push')]
        from sa.util import counter_local, is_var
        l_tc = counter_local(prog, f, 0, 1)
        TXC = is_var(l_tc[0]) if len(l_tc) == 1 else (lambda x: False)
        stop = P.binop('Lt', TXC, P.param('number_of_transactions'))
        okp = len(push) == 1 and sum(1 for c in cond_exprs(prog, f, push[0].bb) if stop(c)) >= 2
        ctx.check(okp, 'R3', 'stops-at-count', push[0] if push else f, 'both loops stop once tx_count reaches the requested count', 'push is not guarded by tx_count < number_of_transactions in both loops')
        ctx.check(len(l_tc) == 1, 'R3', 'count-increment', f, 'the transaction counter starts at 0 and is incremented by 1 per fee', 'no counter 0 / +1 found (candidates: %d)' % len(l_tc))
        # cached fees used when present, else recomputed from the block's transactions (filter_map over get_tx_fee_per_byte)
        fr_ = [k for k in f.calls_to('ic_btc_canister::blocktree::CachedBlock::fee_rates') if not k.cleanup]
        rc = [k for kk in [f] + prog.descendants(f) for k in kk.calls_to(FP + 'get_tx_fee_per_byte') if not k.cleanup]
        # the fallback visits the block's transactions in block order, like the insertion-time path
        fwd = False
        for kk in [f] + prog.descendants(f):
            ek = ex(prog, kk)
            for c_ in kk.calls():
                if not c_.cleanup and c_.matches('core::iter::traits::iterator::Iterator::filter_map') and P.call('core::slice::iter', P.call('ic_btc_types::Block::txdata', P.anything))(ek.operand(c_.args[0])):
                    fwd = True
        ctx.check(fwd, 'R2', 'fallback-block-order', f, 'the fallback maps block.txdata().iter() in block order (no reordering adaptor), like the insertion-time computation',
                  'the fallback does not iterate block.txdata() in block order: cached and recomputed fee lists differ in order')
        cache_order(ctx)
        ctx.check(len(fr_) == 1 and len(rc) == 1, 'R3', 'cached-or-recomputed', fr_[0] if fr_ else f, 'per block: cached fee rates if present, else recomputed from its transactions', 'cached/recompute structure not found')
    # ---------------- R4 ------------------------------------------------------------------------
    require_writers(ctx, 'R4', 'writers:fee_percentiles_cache', 'ic_btc_canister::state::GenericState', 'fee_percentiles_cache', {w, 'ic_btc_canister::state::GenericState::map_tree'}, floor=1)
    f = ctx.fn('R4', w)
    if f:
        rows = table(prog, f)
        tip = P.call('<ic_btc_canister::blocktree::CachedBlock as ic_btc_canister::blocktree::ChainBlock>::block_hash', P.call('ic_btc_canister::blocktree::BlockChain::tip', P.call('ic_btc_canister::unstable_blocks::get_main_chain', P.anything)))
        cache = P.field('fee_percentiles_cache', P.param('state'))
        cached_v = P.field('fee_percentiles', P.has(P.downcast('Some', cache)))
        hit = [r for r in rows if cached_v(r[1]) and P.exactly(r[2], [P.is_(cache, 'Some'), P.binop('Eq', tip, P.field('tip_block_hash', P.has(P.downcast('Some', cache))))])]
        emp = [r for r in rows if cached_v(r[1]) and any(P.call('alloc::vec::Vec::is_empty', P.call(FP + 'get_fees_per_byte'))(c) for c in r[2]) and any(P.is_(cache, 'Some')(c) for c in r[2])]
        comp = [r for r in rows if P.call(FP + 'percentiles', P.call(FP + 'get_fees_per_byte'))(r[1]) or r[1][0] == 'var']
        ctx.check(len(hit) == 1 and len(emp) == 1 and len(comp) == 1 and len(rows) == 3, 'R4', 'table', f,
                  'hit (same tip) -> cached; no fees and a cache present -> cached; otherwise percentiles(fees)', 'cache table: %s' % describe_table(rows))
        fa = field_assignments(prog, f, 'ic_btc_canister::state::GenericState', 'fee_percentiles_cache')
        good = len(fa) == 1 and P.agg(variant='Some', _0=P.agg('FeePercentilesCache', tip_block_hash=tip, fee_percentiles=P.has(P.call(FP + 'percentiles'))))(fa[0][2])
        g = cfg(f)
        not_on_hit = bool(fa) and not any(g.reaches(fa[0][0], r[0]) for r in hit + emp)
        ctx.check(good and not_on_hit, 'R4', 'stored-key-is-lookup-key', f.where(fa[0][0]) if fa else f, 'the cache stores (tip hash used for the lookup, computed percentiles) and is not overwritten on a hit / empty list',
                  'cache store: %s' % [show(x[2])[:200] for x in fa])
    # ---------------- R5 ------------------------------------------------------------------------
    m = ctx.fn('R5', 'ic_btc_canister::heartbeat::maybe_compute_fee_percentiles')
    if m:
        e = ex(prog, m)
        comp = [k for k in m.calls_to('ic_btc_canister::with_state_mut') if not k.cleanup and FP + 'get_current_fee_percentiles_impl' in k.fn_args()]
        conds = cond_exprs(prog, m, comp[0].bb) if comp else []
        oklazy = False
        if len(conds) == 1 and conds[0][0] == 'un' and conds[0][1] == 'Not' and conds[0][2][0] == 'call' and conds[0][2][2] and conds[0][2][2][0][0] == 'closure':
            k = prog.fns.get(conds[0][2][2][0][1])
            if k:
                r = ex(prog, k).local(0)
                oklazy = P.binop('Eq', P.has(P.agg(variant='Enabled')), P.field('lazily_evaluate_fee_percentiles', P.anything))(r)
        # no other path condition (a guard written with `&&` is not on the dominator chain): the exact
        # path condition of the computation is the single literal above
        from sa.expr import feasible_path_conditions
        dnf = feasible_path_conditions(prog, m, comp[0].bb) if comp else None
        oklazy = oklazy and dnf is not None and len(dnf) == 1 and len(dnf[0]) == 1
        ctx.check(bool(comp) and oklazy, 'R5', 'eager-unless-lazy', comp[0] if comp else m, 'the heartbeat computes the percentiles unless lazily_evaluate_fee_percentiles == Enabled', 'eager/lazy condition: %s' % fmt_conds(conds)[:200])
    im = ctx.fn('R5', FP + 'get_current_fee_percentiles_impl')
    if im:
        r = ex(prog, im).local(0)
        ctx.check(P.call(w, P.param('state'), P.item('NUM_TRANSACTIONS', 10000))(r), 'R5', 'impl', im, 'the heartbeat path uses the same computation with NUM_TRANSACTIONS', 'impl is %s' % show(r))


def cache_order(ctx):
    """R2 (added after seeded change C15-7): the insertion-time fee list reaches its reader in block order —
    insert_outpoints appends one rate per transaction while walking block.txdata() forward, set_metrics stores
    the list as it is and CachedBlock::fee_rates hands it out as it is. The 10 000-transaction window may end
    inside a block; the fallback takes that block's transactions in block order, so the cached list must too."""
    prog = ctx.prog
    BTC = 'ic_btc_canister::blocktree::CachedBlock::'
    REORDER = {'reverse', 'rev', 'sort', 'sort_unstable', 'sort_by', 'sort_by_key', 'sort_unstable_by', 'sort_unstable_by_key', 'insert', 'swap', 'rotate_left',
               'rotate_right', 'dedup', 'retain', 'truncate', 'drain', 'split_off', 'pop', 'remove', 'swap_remove', 'skip', 'take', 'step_by', 'filter'}
    sm = ctx.fn('R2', BTC + 'set_metrics')
    if sm:
        e = ex(prog, sm)
        fa = field_assignments(prog, sm, 'ic_btc_canister::blocktree::CachedBlock', 'fee_rates')
        SRC = P.field('fee_rates', P.param('metrics'))
        ok = len(fa) == 1 and P.agg(variant='Some', _0=SRC)(fa[0][2]) and not cond_exprs(prog, sm, fa[0][0])
        touching = sorted({(c.gshort or c.short or '?').rsplit('::', 1)[-1] for c in sm.calls() if not c.cleanup and any(P.has(SRC)(e.operand(a)) for a in c.args)})
        ctx.check(ok and not (set(touching) & REORDER), 'R2', 'cache-stores-list-verbatim', sm, 'set_metrics stores metrics.fee_rates as it is',
                  'set_metrics does not store the fee list verbatim (stored: %s; calls on the list: %s)' % ([show(x[2])[:80] for x in fa], touching))
    fr = ctx.fn('R2', BTC + 'fee_rates')
    if fr:
        r = ex(prog, fr).local(0)
        ok = P.call('*::as_deref', P.field('fee_rates', P.param('self')))(r) or P.field('fee_rates', P.param('self'))(r)
        ctx.check(ok, 'R2', 'cache-returns-list-verbatim', fr, 'CachedBlock::fee_rates returns the stored list as it is', 'CachedBlock::fee_rates returns %s' % show(r)[:160])
    io = ctx.fn('R2', 'ic_btc_canister::unstable_blocks::outpoints_cache::insert_outpoints')
    if io:
        e = ex(prog, io)
        from sa.util import local_by_name
        # the list that ends up in BlockMetrics.fee_rates
        aggs = [e.rvalue(st['rv']) for b in io.blocks for st in b['stmts'] if (st.get('rv') or {}).get('agg') == 'adt' and st['rv']['adt'].endswith('BlockMetrics')]
        lst = dict(aggs[0][4]).get('fee_rates') if len(aggs) == 1 else None
        l = lst[2] if isinstance(lst, tuple) and lst[0] == 'var' and len(lst) > 2 else None
        if l is None and isinstance(lst, tuple):
            # single-definition local: find the local whose definition is this expression
            for i in range(len(io.locals)):
                if io.locals[i].get('name') and e.local(i) == lst:
                    l = i
        ops = set()
        if l is not None:
            for c in io.calls():
                if c.cleanup or not c.args:
                    continue
                a0 = c.args[0]
                pl = (a0.get('copy') or a0.get('move') or {}) if isinstance(a0, dict) else {}
                recv = e.operand(a0)
                if (isinstance(recv, tuple) and recv[0] == 'var' and len(recv) > 2 and recv[2] == l) or recv == lst:
                    ops.add((c.gshort or c.short or '?').rsplit('::', 1)[-1])
        tx_iter = [c for c in io.calls() if not c.cleanup and c.matches('core::slice::iter', '*::into_iter') and P.has(P.call('ic_btc_types::Block::txdata', P.param('block')))(e.operand(c.args[0]))]
        names = {(c.gshort or c.short or '?').rsplit('::', 1)[-1] for c in io.calls() if not c.cleanup}
        ok = l is not None and 'push' in ops and not (ops & REORDER) and bool(tx_iter) and not ({'rev', 'step_by', 'sort', 'sort_unstable', 'sort_by', 'sort_by_key'} & names)
        ctx.check(ok, 'R2', 'insertion-list-in-block-order', io, 'insert_outpoints appends one fee rate per transaction while walking block.txdata() forward (operations on the list: %s)' % sorted(ops),
                  'the insertion-time fee list is not built by appending in block order (list local found=%s, operations on it: %s)' % (l is not None, sorted(ops)))


# plumbing between the interface and the analysed functions (rules/plumbing.py)
_run_before_plumbing = run


def run(ctx):
    _run_before_plumbing(ctx)
    from rules import plumbing
    plumbing.init_applies_config(ctx, 'R5', fields=('lazily_evaluate_fee_percentiles',))
