"""C07 — Header ranges are exact, ordered and linked across the stable boundary (DESIGN §5 C07)."""
from sa import pat as P
from sa.cfg import cfg
from sa.expr import ex, show, walk, cond_exprs, const_val
from sa.util import table, fmt_conds, describe_table, glob_any, the_closure, return_blocks

EXPLANATION = (
    "Decides structurally: R1 disjoint partition — a response is the stable part followed by the unstable part, and the "
    "unstable part starts at stable_height (the anchor stays in the tree until it is popped). The header of a stabilising "
    "block is written to the stable store when its ingestion starts, which may pause over several messages; therefore "
    "either the stable read is bounded below stable_height (range end min(_, stable_height - 1) and skipped when start "
    "lies at or above it), or no Paused return is reachable after the header insertion; R2 limits — "
    "MAX_BLOCK_HEADERS_PER_RESPONSE = 100, effective end = min(end or tip, start + 100 - 1); R3 the error table in "
    "order (start > tip, end < start, end > tip) against main_chain_height; R4 the unstable part is a slice of the best "
    "chain indexed by height - stable_height (start saturating), skipped when the range ends below stable_height; "
    "tip_height of the response is the effective end; R5 stored header blobs are 80 bytes; R6 the stable store writes "
    "headers[hash] and heights[height] = hash together, from the block's own header and hash, and serves a range by walking "
    "the height index in key order and looking each hash up. "
    "Does NOT decide: prev-hash linkage of the stored headers (a data fact); all (start, end) pairs by value.")
RULES = {
    'R1': 'stable read bounded below stable_height, or NOPATH(header insert ⇝ Paused)',
    'R2': 'CONST and EXPR of the effective range',
    'R3': 'decision table of verify_and_return_effective_range',
    'R4': 'EXPR of the unstable slice; response tip_height',
    'R5': 'BlockHeaderBlob size',
    'R6': 'stable header store: height index and header map written together, range read by height; boundary moves only with the anchor (= C03.R1, C03.R3)',
}
ASSUMPTIONS = []
GH = 'ic_btc_canister::api::get_block_headers::'
UB = 'ic_btc_canister::unstable_blocks::'
ST = 'ic_btc_canister::state::'


def run(ctx):
    prog = ctx.prog
    # ---------------- R1 ------------------------------------------------------------------------
    f = ctx.fn('R1', GH + 'get_block_headers_internal')
    ing = ctx.fn('R1', ST + 'ingest_stable_blocks_into_utxoset')
    option_b = False
    if ing:
        g = cfg(ing)
        ins = [c for c in ing.calls_to('ic_btc_canister::block_header_store::BlockHeaderStore::insert_block') if not c.cleanup]
        paused = [bb for bb, e, _ in table(prog, ing) if P.agg(variant='Paused')(e)]
        option_b = bool(ins) and not any(g.reaches(ins[0].bb, p) for p in paused)
    option_a, why = False, 'stable read not found'
    if f:
        for k in [f] + prog.descendants(f):
            e = ex(prog, k)
            for c in k.calls_to('ic_btc_canister::block_header_store::BlockHeaderStore::get_block_headers_in_range'):
                if c.cleanup:
                    continue
                ctx.touch(k)
                ctx.saw_calls()
                rng = e.operand(c.args[1])
                why = 'the stable store is read for %s' % show(rng)[:200]
                SH = P.either(P.call(ST + 'GenericState::stable_height', P.anything), P.call('ic_btc_canister::utxo_set::UtxoSet::next_height', P.anything))
                last_stable = P.either(P.binop('Sub', SH, P.const(1)), P.has(P.downcast('Some', P.call('core::num::checked_sub', SH, P.const(1)))), 
                                       P.call('core::num::saturating_sub', SH, P.const(1)))
                if P.call('core::ops::range::RangeInclusive::new', P.anything, P.anything)(rng):
                    end = rng[2][1]
                    bounded = P.call('min', P.anything, last_stable)(end) or P.call('min', last_stable, P.anything)(end)
                    # exclusive-range alternative: start..min(end + 1, stable_height)
                    if bounded:
                        # when start > last stable height the read must be skipped (an inverted inclusive range panics in the store)
                        conds = cond_exprs(prog, k, c.bb)
                        guarded = any(c_[0] == 'bin' and c_[1] in ('Le', 'Lt') and (P.has(last_stable)(c_[3]) or P.has(SH)(c_[3])) for c_ in conds) or \
                            any(c_[0] == 'is' and c_[2] == ('Some',) and P.has(P.call('core::num::checked_sub'))(c_[1]) for c_ in conds)
                        option_a = guarded
                        why = 'stable read end = %s; start guard present = %s' % (show(end)[:120], guarded)
                elif P.has(SH)(rng):
                    option_a = True
                    why = 'stable read range mentions stable_height: %s' % show(rng)[:160]
    ctx.check(option_a or option_b, 'R1', 'stable-read-below-stable-height', f or '',
              'no height is served from both sources: %s' % ('the stable read is bounded below stable_height' if option_a else 'no Paused return is reachable after the header is stored'),
              'the header of a stabilising block is stored before its (possibly paused) ingestion completes and the stable read covers start..=end unclamped, while the unstable '
              'part starts at stable_height: during a paused ingestion height stable_height is returned twice (%s)' % why)
    # ---------------- R2 / R3 -------------------------------------------------------------------
    c = prog.consts.get(GH + 'MAX_BLOCK_HEADERS_PER_RESPONSE', {})
    ctx.check(c.get('int') == 100, 'R2', 'MAX_BLOCK_HEADERS_PER_RESPONSE', '', 'MAX_BLOCK_HEADERS_PER_RESPONSE = 100', 'MAX_BLOCK_HEADERS_PER_RESPONSE = %s' % c.get('s'))
    v = ctx.fn('R3', GH + 'verify_and_return_effective_range')
    if v:
        e = ex(prog, v)
        rows = table(prog, v)
        CH = P.call('ic_btc_canister::with_state', P.anything)
        chain_is_main = any(x == ('fn', ST + 'main_chain_height') for r in rows for c_ in r[2] for x in walk(c_))
        START = P.field('start_height', P.param('request'))
        END = P.field('0', P.downcast('Some', P.field('end_height', P.param('request'))))
        e1 = [r for r in rows if P.agg(variant='Err', _0=P.agg(variant='StartHeightDoesNotExist', requested=START, chain_height=CH))(r[1]) and P.exactly(r[2], [P.binop('Lt', CH, START)])]
        e2 = [r for r in rows if P.agg(variant='Err', _0=P.agg(variant='StartHeightLargerThanEndHeight', start_height=START, end_height=END))(r[1]) and any(P.binop('Lt', END, START)(c_) for c_ in r[2])]
        e3 = [r for r in rows if P.agg(variant='Err', _0=P.agg(variant='EndHeightDoesNotExist', requested=END, chain_height=CH))(r[1]) and any(P.binop('Lt', CH, END)(c_) for c_ in r[2]) and any(P.binop('Le', START, END)(c_) for c_ in r[2])]
        ok = [r for r in rows if P.agg(variant='Ok')(r[1])]
        ctx.check(len(e1) == 1 and len(e2) == 1 and len(e3) == 1 and len(ok) == 1 and len(rows) == 4 and chain_is_main, 'R3', 'error-table', v,
                  'start > tip -> StartHeightDoesNotExist; end < start -> StartHeightLargerThanEndHeight; end > tip -> EndHeightDoesNotExist; tip = main_chain_height',
                  'range check table: %s' % describe_table(rows))
        eff = [x for l in range(len(v.locals)) for x in table(prog, v, l)]
        want = P.call('min', P.anything, P.binop('Sub', P.binop('Add', P.anything, P.item('MAX_BLOCK_HEADERS_PER_RESPONSE', 100)), P.const(1)))
        okeff = any(want(x[1]) for x in eff)
        ctx.check(okeff, 'R2', 'effective-end', v, 'effective end = min(end or tip, start + 100 - 1)', 'effective end: %s' % describe_table(eff))
        # the (start, end) pair: (start, end) if given else (start, tip)
        tup = [x for l in range(len(v.locals)) for x in table(prog, v, l) if x[1][0] == 'agg' and x[1][1] == 'tuple' and len(x[1][4]) == 2 and START(x[1][4][0][1])]
        some = [x for x in tup if END(x[1][4][1][1])]
        none = [x for x in tup if CH(x[1][4][1][1]) or P.named('chain_height')(x[1][4][1][1])]
        ctx.check(len(some) >= 1 and len(none) >= 1, 'R2', 'end-or-tip', v, 'without end_height the range ends at the tip', 'default end not recognised')
    # ---------------- R4 ------------------------------------------------------------------------
    u = ctx.fn('R4', UB + 'GenericUnstableBlocks::get_block_headers_in_range')
    if u:
        e = ex(prog, u)
        rows = table(prog, u)
        H, SH = P.param('heights'), P.param('stable_height')
        empty = [r for r in rows if P.has(P.call('*::default'))(r[1]) and P.exactly(r[2], [P.binop('Lt', P.call('core::ops::range::RangeInclusive::end', H), SH)])]
        rng = [e.rvalue(st['rv']) for b in u.blocks for st in b['stmts'] if False]
        news = [c for c in u.calls() if not c.cleanup and c.matches('core::ops::range::RangeInclusive::new')]
        okr = False
        if len(news) == 1:
            a, b_ = e.operand(news[0].args[0]), e.operand(news[0].args[1])
            okr = P.cast(P.call('core::num::saturating_sub', P.call('core::ops::range::RangeInclusive::start', H), SH))(a) and \
                P.cast(P.call('core::option::Option::unwrap', P.call('core::num::checked_sub', P.call('core::ops::range::RangeInclusive::end', H), SH)))(b_)
        idx = [c for c in u.calls() if not c.cleanup and c.matches('<alloc::vec::Vec as core::ops::index::Index>::index')]
        oki = len(idx) == 1 and P.call('ic_btc_canister::blocktree::BlockChain::into_chain', P.call(UB + 'get_main_chain', P.param('self')))(e.operand(idx[0].args[0]))
        ctx.check(len(empty) == 1 and okr and oki, 'R4', 'unstable-slice', u, 'unstable part = best chain[(start - stable_height, saturating) ..= end - stable_height], empty when end < stable_height',
                  'unstable slice: empty=%d range=%s chain=%s' % (len(empty), okr, oki))
        okm = any(P.call('*::header', P.anything)(ex(prog, k).local(0)) for k in prog.descendants(u))
        ctx.check(okm, 'R4', 'unstable-headers', u, 'each element is the block\'s header', 'unstable part does not map blocks to their headers')
    if f:
        e = ex(prog, f)
        resp = [e.rvalue(st['rv']) for b in f.blocks for st in b['stmts'] if (st.get('rv') or {}).get('agg') == 'adt' and st['rv']['adt'].endswith('GetBlockHeadersResponse')]
        rngc = P.has(P.call(GH + 'verify_and_return_effective_range'))
        ok = len(resp) == 1 and (P.named('end_height')(dict(resp[0][4]).get('tip_height')) or P.field('1', rngc)(dict(resp[0][4]).get('tip_height'))) and \
            (P.named('vec_headers')(dict(resp[0][4]).get('block_headers')) or P.has(P.call('ic_btc_canister::with_state'))(dict(resp[0][4]).get('block_headers')))
        ctx.check(ok, 'R4', 'response-tip', f, 'tip_height of the response is the effective end of the range', 'response: %s' % [show(x)[:160] for x in resp])
        # order: stable part first, unstable appended
        g = cfg(f)
        app = [(k, c) for k in [f] + prog.descendants(f) for c in k.calls() if not c.cleanup and c.matches('alloc::vec::Vec::append')]
        ok = len(app) == 1 and P.has(P.either(P.upvar(), P.var()))(ex(prog, app[0][0]).operand(app[0][1].args[0]))
        ctx.check(ok, 'R4', 'stable-then-unstable', app[0][1] if app else f, 'the unstable headers are appended after the stable ones', 'append order not recognised')
        # the unstable accessor receives stable_height and the same (start, end)
        ua = [(k, c) for k in prog.descendants(f) for c in k.calls_to(UB + 'GenericUnstableBlocks::get_block_headers_in_range') if not c.cleanup]
        ok = False
        if len(ua) == 1:
            k, c = ua[0]
            ek = ex(prog, k)
            ok = P.call(ST + 'GenericState::stable_height', P.anything)(ek.operand(c.args[1])) and P.call('core::ops::range::RangeInclusive::new', P.has(P.either(P.upvar(), P.var(), P.field('0', P.anything))), P.has(P.either(P.upvar(), P.var(), P.field('1', P.anything))))(ek.operand(c.args[2]))
        ctx.check(ok, 'R4', 'unstable-inputs', ua[0][1] if ua else f, 'the unstable part is asked for (stable_height, start..=end)', 'unstable accessor inputs not recognised')
    r6(ctx)
    # the stable part is complete: the header of every stabilising block is stored, for the block peek
    # returned and at next_height(), before its ingestion starts, whether or not it is sliced (= C03.R2, C08.R6)
    from sa.engine import SubCtx
    from rules import c03, c08, c02
    c03.r2(SubCtx(ctx, {'R2': 'R6'}))
    # ... and the boundary between the two sources moves only together with the anchor: the height
    # advances on completion, in the ingestion loop only, and the pop that follows must succeed
    # (shared with C03.R1 / C03.R3) — otherwise the finished block is served from both sources
    c03.r1(SubCtx(ctx, {'R1': 'R6'}))
    c03.r3(SubCtx(ctx, {'R3': 'R6'}))
    c08.r6(SubCtx(ctx, {'R6': 'R6'}))
    # the chain height the range is checked against is the best chain's (= C02.R6)
    c02.r5_r6(SubCtx(ctx, {'R6': 'R3'}))
    # ---------------- R5 ------------------------------------------------------------------------
    fbs = prog.find('<ic_btc_canister::types::BlockHeaderBlob as core::convert::From>::from')
    okb = False
    fb = fbs[0] if fbs else None
    from sa.util import panic_blocks
    for fb_ in fbs:
        ctx.touch(fb_)
        for b in panic_blocks(fb_):
            for c_ in cond_exprs(prog, fb_, b):
                if any(const_val(x) == 80 for x in walk(c_)) or 'SIZE' in show(c_):
                    okb = True
                    fb = fb_
    bound = prog.consts.get('<ic_btc_canister::types::BlockHeaderBlob as ic_stable_structures::storable::Storable>::BOUND', {}).get('s', '')
    bound_ok = 'max_size: 80_u32' in bound and 'is_fixed_size: true' in bound
    asserted = False
    for fb_ in fbs:
        for b in panic_blocks(fb_):
            for c_ in cond_exprs(prog, fb_, b):
                if c_[0] == 'bin' and c_[1] == 'Ne' and P.has(P.length(P.param('bytes')))(c_) and any(x[0] == 'item' and 'BOUND' in (str(x[1]) + str(x[2])) and 'BlockHeaderBlob' in (str(x[1]) + str(x[2])) for x in walk(c_)):
                    asserted = True
                    fb = fb_
    okb = okb or (bound_ok and asserted)
    sz = []
    ctx.check(okb or bool(sz), 'R5', 'blob-size-80', fb or '', 'BlockHeaderBlob is asserted to be 80 bytes', 'no 80-byte size check for BlockHeaderBlob found')


def r6(ctx):
    prog = ctx.prog
    BHS = 'ic_btc_canister::block_header_store::BlockHeaderStore::'
    f = ctx.fn('R6', BHS + 'insert')
    if f:
        e = ex(prog, f)
        ins = [c for c in f.calls() if not c.cleanup and c.matches('ic_stable_structures::btreemap::BTreeMap::insert')]
        d = {}
        for c in ins:
            tgt = [x[2] for x in walk(e.operand(c.args[0])) if x[0] == 'field' and x[2] in ('block_headers', 'block_heights')]
            if tgt:
                d[tgt[0]] = (e.operand(c.args[1]), e.operand(c.args[2]))
        good = set(d) == {'block_headers', 'block_heights'} and P.param('block_hash')(d['block_headers'][0]) and P.param('header_blob')(d['block_headers'][1]) and \
            P.param('height')(d['block_heights'][0]) and P.param('block_hash')(d['block_heights'][1]) and not any(cond_exprs(prog, f, c.bb) for c in ins)
        ctx.check(good, 'R6', 'store-insert', f, 'insert writes headers[hash] = blob and heights[height] = hash, unconditionally', 'BlockHeaderStore::insert writes %s' % {k: (show(v[0]), show(v[1])) for k, v in d.items()})
    f = ctx.fn('R6', BHS + 'insert_block')
    if f:
        e = ex(prog, f)
        cs = [c for c in f.calls_to(BHS + 'insert') if not c.cleanup]
        enc = [c for c in f.calls() if not c.cleanup and c.matches('*::consensus_encode')]
        good = len(cs) == 1 and len(enc) == 1 and P.has(P.call('ic_btc_types::Block::block_hash', P.param('block')))(e.operand(cs[0].args[1])) and \
            P.call('ic_btc_types::Block::header', P.param('block'))(e.operand(enc[0].args[0])) and P.param('height')(e.operand(cs[0].args[3]))
        ctx.check(good, 'R6', 'store-insert_block', f, 'insert_block stores the block\'s own encoded header under the block\'s own hash at the given height', 'insert_block arguments not recognised')
    f = ctx.fn('R6', BHS + 'get_block_headers_in_range')
    if f:
        r = ex(prog, f).local(0)
        good = P.call('core::iter::traits::iterator::Iterator::map', P.call('ic_stable_structures::btreemap::BTreeMap::range', P.field('block_heights', P.param('self')), P.param('heights')), P.anything)(r)
        okc = False
        for k in prog.children(f):
            rr = ex(prog, k).local(0)
            okc = okc or P.has(P.call('ic_stable_structures::btreemap::BTreeMap::get', P.has(P.field('block_headers')), P.has(P.call('*::value', P.anything))))(rr)
        ctx.check(good and okc, 'R6', 'store-range', f, 'a range is served by walking the height index over `heights` and looking up each entry\'s hash in the header map', 'range read is %s' % show(r)[:200])
