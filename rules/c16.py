"""C16 — Cycles charged follow the published formula and never exceed the maximum (DESIGN §5 C16)."""
from sa import pat as P
from sa.cfg import cfg, cfg_assuming
from sa.expr import ex, show, walk, cond_exprs, const_val
from sa.guards import GateAnalysis
from sa.util import gate, table, fmt_conds, describe_table, require_callers, the_closure, glob_any, local_assignments, panic_blocks

EXPLANATION = (
    "Decides structurally: R1 verify-before-charge — on every call path of each charging endpoint every "
    "msg_cycles_accept is dominated by verify_has_enough_cycles(fees.<endpoint>_maximum) (evaluated on the CFG "
    "specialised to charge_fees = true where the implementation is shared with a query variant); charge_cycles itself "
    "verifies the amount before accepting and asserts that the accepted amount equals it; R2 the formulas as "
    "expressions of every charge_cycles argument, with fee fields identified by name: get_utxos / get_block_headers "
    "base = fees.X_base and variable = min((ins_total / 10) as u128 * fees.X_cycles_per_ten_instructions, "
    "fees.X_maximum - fees.X_base); get_balance = fees.get_balance; percentiles = fees.get_current_fee_percentiles; "
    "send_transaction = base + per_byte * len(request.transaction); R3 query variants reach no accept / verify (CFG "
    "specialised to charge_fees = false; call-graph reachability for get_balance_query); R4 the variable charge lies "
    "behind the success edge of the computation (errors pay only the base); R5 the client library's cost table covers "
    "the canister's default maximum for all 5 endpoints x 3 networks (exhaustive, from evaluated constants). "
    "Does NOT decide: the instruction count itself (a runtime quantity); configurations with maximum < base.")
RULES = {
    'R1': 'DOM(verify_has_enough_cycles(maximum) ≺ every msg_cycles_accept) on all call paths; shape of charge_cycles',
    'R2': 'EXPR of every charge_cycles argument against the published formula',
    'R3': 'SPEC(charge_fees=false) reaches no charge; REACH(query variants) ∩ {accept, verify} = ∅',
    'R4': 'GATE(computation success ⇒ variable charge)',
    'R5': 'TABLE(cost_*) ≥ TABLE(Fees::mainnet/testnet/default) for 15 cells',
    'R6': 'the fee table in force is the configured one: explicit fees win, otherwise Fees::mainnet() / Fees::testnet() / default per network (Config::from(InitConfig)); init and set_config copy `fees` from the field of the same name',
}
ASSUMPTIONS = ['msg_cycles_accept(max) accepts min(max, available) (IC semantics); the assert in charge_cycles makes a short accept trap']
API = 'ic_btc_canister::api::'
FEES = lambda name: P.field(name, P.field('fees', P.anything), owner='ic_btc_interface::Fees')
VERIFY = 'ic_btc_canister::verify_has_enough_cycles'
CHARGE = 'ic_btc_canister::charge_cycles'
ACCEPT = 'ic_btc_canister::runtime::msg_cycles_accept'


def state_closure_value(prog, fn, e):
    """value returned by the closure of a `with_state(|s| ...)` expression"""
    if e[0] == 'call' and e[1] in ('ic_btc_canister::with_state', 'ic_btc_canister::with_state_mut') and e[2] and e[2][0][0] == 'closure':
        cf = prog.fns.get(e[2][0][1])
        if cf is not None:
            return ex(prog, cf).local(0), cf
    return None, None


def run(ctx):
    prog = ctx.prog
    r1_shape(ctx)
    endpoints = {
        'get_utxos': (API + 'get_utxos::get_utxos', 'get_utxos_maximum'),
        'get_balance': (API + 'get_balance::get_balance', 'get_balance_maximum'),
        'get_block_headers': (API + 'get_block_headers::get_block_headers', 'get_block_headers_maximum'),
        'get_current_fee_percentiles': (API + 'fee_percentiles::get_current_fee_percentiles', 'get_current_fee_percentiles_maximum'),
    }
    for name, (fid, maxfield) in endpoints.items():
        f = ctx.fn('R1', fid)
        if not f:
            continue
        assume = (lambda fn: cfg_assuming(prog, fn, 'charge_fees', True))
        ga = GateAnalysis(prog, {'enough': [VERIFY]}, ctx, cfg_of=assume)
        res = ga.walk(f, lambda c: c.matches(ACCEPT, CHARGE), {'enough'}, stop=lambda fn: fn.short == CHARGE)
        bad = [(c, path, miss) for c, path, miss in res if miss]
        if not res:
            ctx.bad('R1', 'verify-before-charge:' + name, f, '%s never charges cycles' % name)
        elif bad:
            c, path, miss = bad[0]
            ctx.bad('R1', 'verify-before-charge:' + name, c, '%s: cycles are accepted at %s without a dominating verify_has_enough_cycles on path %s'
                    % (name, c.where(), ' -> '.join(p.short for p in path)))
        else:
            ctx.ok('R1', 'verify-before-charge:' + name, f, '%s: all %d charge sites are dominated by verify_has_enough_cycles' % (name, len(res)))
        # the verified amount is the endpoint's maximum
        vs = [c for k in prog.reach([f], stop=lambda fn: fn.short == CHARGE).values() for c in k.calls_to(VERIFY) if not c.cleanup and k.short != CHARGE]
        okm = False
        for c in vs:
            v, cf = state_closure_value(prog, c.fn, ex(prog, c.fn).operand(c.args[0]))
            if v is not None and FEES(maxfield)(v):
                okm = True
        ctx.check(okm, 'R1', 'verifies-maximum:' + name, vs[0] if vs else f, '%s refuses calls carrying less than fees.%s' % (name, maxfield),
                  '%s does not verify fees.%s before charging' % (name, maxfield))
    r2(ctx)
    r3(ctx)
    r5(ctx)


def r1_shape(ctx):
    prog = ctx.prog
    f = ctx.fn('R1', CHARGE)
    if f:
        g = cfg(f)
        e = ex(prog, f)
        v = [c for c in f.calls_to(VERIFY) if not c.cleanup]
        a = [c for c in f.calls_to(ACCEPT) if not c.cleanup]
        good = len(v) == 1 and len(a) == 1 and g.dominates(v[0].bb, a[0].bb) and P.param('amount')(e.operand(v[0].args[0])) and P.param('amount')(e.operand(a[0].args[0]))
        ctx.check(good, 'R1', 'charge_cycles:verify-then-accept', f, 'charge_cycles(amount) verifies `amount` is available, then accepts exactly `amount`', 'charge_cycles does not verify before accepting')
        pbs = panic_blocks(f)
        conds = [cond_exprs(prog, f, b) for b in pbs]
        eqok = any(any(P.binop('Ne', P.has(P.call(ACCEPT, P.param('amount'))), P.has(P.param('amount')))(c) or P.not_(P.binop('Eq', P.has(P.call(ACCEPT)), P.anything))(c) for c in cs) for cs in conds)
        ctx.check(eqok, 'R1', 'charge_cycles:asserts-accepted', f, 'charge_cycles asserts that the accepted amount equals the requested amount', 'charge_cycles does not assert the accepted amount')
    require_callers(ctx, 'R1', 'callers:msg_cycles_accept', [ACCEPT], {CHARGE})
    f = ctx.fn('R1', VERIFY)
    if f:
        pbs = panic_blocks(f)
        conds = {fmt_conds(cond_exprs(prog, f, b)): cond_exprs(prog, f, b) for b in pbs}
        good = len(conds) == 1 and P.exactly(list(conds.values())[0], [P.binop('Lt', P.call('ic_btc_canister::runtime::msg_cycles_available'), P.param('amount'))])
        ctx.check(good, 'R1', 'verify:predicate', f, 'verify_has_enough_cycles traps exactly when msg_cycles_available() < amount', 'verify_has_enough_cycles predicate: %s' % list(conds))


def charge_args(prog, f, ctx):
    """[(CallSite, value expr)] of charge_cycles calls in f and its closures; with_state closures resolved."""
    out = []
    for k in [f] + prog.descendants(f):
        ctx.touch(k)
        e = ex(prog, k)
        for c in k.calls_to(CHARGE):
            if c.cleanup:
                continue
            a = e.operand(c.args[0])
            v, cf = state_closure_value(prog, k, a)
            out.append((c, v if v is not None else a, cf))
    return out


def ins_total_provenance(ctx):
    """the instruction count the variable fee is computed from is the message's counter, read on every
    successful path (a fast path that returns the stats before the counter is read charges the base only)"""
    prog = ctx.prog
    from sa.cfg import cfg as _cfg
    from sa.util import table as _table
    for ep, fid in (('get_block_headers', API + 'get_block_headers::get_block_headers_internal'), ('get_utxos', API + 'get_utxos::get_utxos_from_chain')):
        f = ctx.fn('R2', fid)
        if not f:
            continue
        g = _cfg(f)
        writes = []
        for bi, b in enumerate(f.blocks):
            if b.get('cleanup'):
                continue
            t = b['term']
            if t['k'] == 'call' and t.get('dst') and any(isinstance(e_, dict) and e_.get('field') == 'ins_total' for e_ in t['dst']['p']) and \
                    (norm_callee(t) or '').endswith('runtime::performance_counter'):
                writes.append(bi)
            for st in b['stmts']:
                if any(isinstance(e_, dict) and e_.get('field') == 'ins_total' for e_ in st['dst']['p']):
                    v = ex(prog, f).rvalue(st['rv']) if 'rv' in st else None
                    if v is not None and P.call('*::performance_counter')(v):
                        writes.append(bi)
        oks = [r for r in _table(prog, f) if P.agg(variant='Ok')(r[1])]
        good = bool(writes) and bool(oks) and all(any(g.dominates(w, r[0]) for w in writes) for r in oks)
        ctx.check(good, 'R2', 'ins-total-read-on-every-success:' + ep, f.where(writes[0]) if writes else f,
                  '%s: stats.ins_total = performance_counter() dominates every Ok return' % ep,
                  '%s can return Ok with stats.ins_total never read from the instruction counter: the call is charged the base fee only' % ep)


def norm_callee(t):
    from sa.facts import const_of, norm
    c = const_of(t['func']) or {}
    return norm(c.get('resolved') or c.get('fn') or '')


def send_transaction_charges_first(ctx):
    """send_transaction charges base + per_byte * len before it can return anything (also for payloads it
    is going to refuse)"""
    prog = ctx.prog
    from sa.cfg import cfg as _cfg
    from sa.util import return_blocks as _rets
    fs = [c.fn for c in prog.callers('ic_btc_canister::runtime::call_send_transaction_internal') if not c.cleanup]
    if len(fs) != 1:
        ctx.unknown('R4', 'send_transaction-charges-first', '', 'send_transaction body not found')
        return
    F = fs[0]
    ctx.touch(F)
    g = _cfg(F)
    ch = [c for c in F.calls_to('ic_btc_canister::charge_cycles') if not c.cleanup]
    rets = _rets(F)
    good = len(ch) == 1 and bool(rets) and all(g.dominates(ch[0].bb, r) for r in rets)
    ctx.check(good, 'R4', 'send_transaction-charges-first', ch[0] if ch else F, 'every return of send_transaction (Ok or Err) is dominated by the charge',
              'send_transaction can return without charging: a refused payload costs nothing')


def r2(ctx):
    prog = ctx.prog
    ins_total_provenance(ctx)
    send_transaction_charges_first(ctx)
    for ep, fid, pre in (('get_utxos', API + 'get_utxos::get_utxos_private', 'get_utxos'), ('get_block_headers', API + 'get_block_headers::get_block_headers', 'get_block_headers')):
        f = ctx.fn('R2', fid)
        if not f:
            continue
        args = charge_args(prog, f, ctx)
        base = [x for x in args if FEES(pre + '_base')(x[1])]
        ctx.check(len(base) == 1, 'R2', 'base:' + ep, base[0][0] if base else f, '%s charges the base fee fees.%s_base once' % (ep, pre), '%s base charges: %s' % (ep, [show(x[1]) for x in args]))
        ins = P.cast(P.binop('Div', P.has(P.field('ins_total')), P.const(10)), 'u128')
        var = P.call('min', P.binop('Mul', ins, FEES(pre + '_cycles_per_ten_instructions')), P.binop('Sub', FEES(pre + '_maximum'), FEES(pre + '_base')))
        vs = [x for x in args if var(x[1])]
        ctx.check(len(vs) == 1 and len(args) == 2, 'R2', 'variable:' + ep, vs[0][0] if vs else f,
                  '%s variable fee = min((ins_total / 10) as u128 * fees.%s_cycles_per_ten_instructions, fees.%s_maximum - fees.%s_base)' % (ep, pre, pre, pre),
                  '%s variable charge is %s' % (ep, [show(x[1])[:260] for x in args if not FEES(pre + '_base')(x[1])]))
        # R4: variable charge behind the success edge of the computation
        if vs and base:
            c = vs[0][0]
            # the with_state call in f that runs the charging closure (or the call itself when direct)
            site = None
            root_calls = [k for k in f.calls() if not k.cleanup and (c.fn.id in k.closure_args() or k is c)]
            site = root_calls[0] if root_calls else None
            comp = [k for k in f.calls() if not k.cleanup and (k.matches(API + 'get_block_headers::get_block_headers_internal') or
                    (k.matches('ic_btc_canister::with_state') and any(P.has(P.call(API + 'get_utxos::get_utxos_internal'))(ex(prog, prog.fns[ci]).local(0)) or
                                                                     any(cc.matches(API + 'get_utxos::get_utxos_internal') for cc in prog.fns[ci].calls()) for ci in k.closure_args() if ci in prog.fns)))]
            if site is None or not comp:
                ctx.unknown('R4', 'errors-pay-base-only:' + ep, f, 'computation / charge site not located')
            else:
                ok, why = gate(prog, f, comp[0].bb, site.bb)
                ctx.check(ok, 'R4', 'errors-pay-base-only:' + ep, site, 'the variable fee is charged only after the computation succeeded (%s)' % why[:120],
                          'the variable fee is charged even when the request fails: %s' % why)
                g = cfg_assuming(prog, f, 'charge_fees', True)
                ctx.check(g.dominates(base[0][0].bb if base[0][0].fn.id == f.id else 0, comp[0].bb), 'R4', 'base-before-computation:' + ep, base[0][0],
                          'the base fee is charged before the computation', 'base fee is not charged before the computation')
    for ep, fid, fld in (('get_balance', API + 'get_balance::get_balance', 'get_balance'), ('get_current_fee_percentiles', API + 'fee_percentiles::get_current_fee_percentiles', 'get_current_fee_percentiles')):
        f = ctx.fn('R2', fid)
        if not f:
            continue
        args = charge_args(prog, f, ctx)
        ctx.check(len(args) == 1 and FEES(fld)(args[0][1]), 'R2', 'flat:' + ep, args[0][0] if args else f, '%s charges the flat fee fees.%s once' % (ep, fld), '%s charges %s' % (ep, [show(x[1]) for x in args]))
        # charged whether or not the request later fails: the charge dominates the computation call
        g = cfg(f)
        comp = [k for k in f.calls() if not k.cleanup and k.matches(API + 'get_balance::get_balance_private', 'ic_btc_canister::with_state_mut')]
        if args and comp:
            ctx.check(g.dominates(args[0][0].bb, comp[0].bb), 'R2', 'flat-before-computation:' + ep, args[0][0], 'the flat fee is charged before the computation (errors pay it too)', 'flat fee is charged after the computation')
    f = ctx.fn('R2', API + 'send_transaction::send_transaction::{closure#0}')
    if f:
        args = charge_args(prog, f, ctx)
        want = P.binop('Add', FEES('send_transaction_base'), P.binop('Mul', FEES('send_transaction_per_byte'), P.cast(P.length(P.field('transaction', P.anything)), 'u128')))
        ctx.check(len(args) == 1 and want(args[0][1]), 'R2', 'send_transaction', args[0][0] if args else f,
                  'send_transaction charges fees.send_transaction_base + fees.send_transaction_per_byte * request.transaction.len()', 'send_transaction charges %s' % [show(x[1]) for x in args])


def r3(ctx):
    prog = ctx.prog
    f = ctx.fn('R3', API + 'get_utxos::get_utxos_private')
    if f:
        assume = (lambda fn: cfg_assuming(prog, fn, 'charge_fees', False))
        ga = GateAnalysis(prog, {'enough': [VERIFY]}, ctx, cfg_of=assume)
        res = ga.walk(f, lambda c: c.matches(ACCEPT, CHARGE, VERIFY, 'ic_btc_canister::runtime::msg_cycles_available'), set(), stop=lambda fn: fn.short == CHARGE)
        ctx.check(not res, 'R3', 'get_utxos_private[charge_fees=false]', res[0][0] if res else f,
                  'with charge_fees = false no cycles function is reachable in get_utxos_private', 'the query path reaches %s' % [c.short for c, _, _ in res][:3])
        # both variants call it with the right constant
        for fid, val in ((API + 'get_utxos::get_utxos', 1), (API + 'get_utxos::get_utxos_query', 0)):
            w = ctx.fn('R3', fid)
            if w:
                cs = [c for c in w.calls_to(f.short) if not c.cleanup]
                v = const_val(ex(prog, w).operand(cs[0].args[1])) if cs else None
                ctx.check(len(cs) == 1 and v in (val, bool(val)), 'R3', 'constant:' + fid.rsplit('::', 1)[-1], cs[0] if cs else w,
                          '%s passes charge_fees = %s' % (fid.rsplit('::', 1)[-1], bool(val)), '%s passes charge_fees = %s' % (fid.rsplit('::', 1)[-1], v))
    for fid in (API + 'get_balance::get_balance_query',):
        w = ctx.fn('R3', fid)
        if w:
            reach = prog.reach([w])
            hit = [k.short for k in reach.values() if k.short in (CHARGE, VERIFY, ACCEPT, 'ic_btc_canister::runtime::msg_cycles_available')]
            ctx.check(not hit, 'R3', 'reach:' + fid.rsplit('::', 1)[-1], w, '%s reaches no cycles function' % fid.rsplit('::', 1)[-1], '%s reaches %s' % (fid, hit))
    # exported query methods of the canister never reach msg_cycles_accept
    from rules.c14 import exported
    for name, (kind, f) in sorted(exported(prog).items()):
        if kind == 'query':
            # shared implementations are entered with the constant charge_fees = false (checked above: `constant:*_query`)
            ga = GateAnalysis(prog, {}, ctx, cfg_of=lambda fn: cfg_assuming(prog, fn, 'charge_fees', False))
            res = ga.walk(f, lambda c: c.matches(ACCEPT), set())
            ctx.check(not res, 'R3', 'exported-query:' + name, res[0][0] if res else f, 'query method %s cannot accept cycles' % name,
                      'query method %s reaches msg_cycles_accept via %s' % (name, ' -> '.join(p.short for p in res[0][1]) if res else ''))


def fees_table(prog, fid):
    f = prog.fn(fid, required=False)
    if f is None:
        return None
    r = ex(prog, f).local(0)
    if r[0] != 'agg':
        return None
    return {k: const_val(v) for k, v in r[4]}


def r5(ctx):
    prog = ctx.prog
    canister = {
        'Mainnet': fees_table(prog, 'ic_btc_interface::Fees::mainnet'),
        'Testnet': fees_table(prog, 'ic_btc_interface::Fees::testnet'),
    }
    # Regtest: derived Default => all zero; the table State::new uses is checked below
    d = [im for im in prog.impls if im['trait'] == 'core::default::Default' and im['self'].get('adt') == 'ic_btc_interface::Fees']
    ctx.check(bool(d) and d[0]['exp'], 'R5', 'fees-default-derived', '', 'Fees::default() is the derived (all-zero) default', 'Fees has a hand-written Default: the Regtest table must be re-reviewed')
    adt = prog.adts.get('ic_btc_interface::Fees')
    names = [x['name'] for x in adt['variants'][0]['fields']] if adt else []
    canister['Regtest'] = {n: 0 for n in names}
    sn = ctx.fn('R5', 'ic_btc_canister::state::GenericState::new')
    if sn:
        got = {}
        for l, loc in enumerate(sn.locals):
            if loc.get('name') == 'fees':
                for bb, e, c in table(prog, sn, l):
                    if len(c) == 1 and c[0][0] == 'is' and e[0] == 'call':
                        got[c[0][2]] = e[1].rsplit('::', 1)[-1]
        ctx.check(got == {('Mainnet',): 'mainnet', ('Testnet',): 'testnet', ('Regtest',): 'default'}, 'R5', 'canister-default-table', sn,
                  'State::new picks Fees::mainnet / testnet / default per network', 'State::new fee table is %s' % got)
    CL = 'ic_cdk_bitcoin_canister::'
    cells = 0
    for ep, cost_fn, maxfield in (('get_utxos', 'cost_get_utxos', 'get_utxos_maximum'), ('get_balance', 'cost_get_balance', 'get_balance_maximum'),
                                  ('get_current_fee_percentiles', 'cost_get_current_fee_percentiles', 'get_current_fee_percentiles_maximum'),
                                  ('get_block_headers', 'cost_get_block_headers', 'get_block_headers_maximum')):
        f = ctx.fn('R5', CL + cost_fn)
        if not f:
            continue
        got = {}
        for bb, e, c in table(prog, f):
            if len(c) == 1 and c[0][0] == 'is':
                for net in c[0][2]:
                    got[net] = const_val(e)
        for net in ('Mainnet', 'Testnet', 'Regtest'):
            cells += 1
            cv = got.get(net)
            mv = (canister.get(net) or {}).get(maxfield)
            ctx.check(isinstance(cv, int) and isinstance(mv, int) and cv >= mv, 'R5', 'cell:%s:%s' % (ep, net), f,
                      'client attaches %s >= canister default maximum %s' % (cv, mv), 'client attaches %s cycles but the canister\'s default %s on %s is %s' % (cv, maxfield, net, mv))
    f = ctx.fn('R5', CL + 'cost_send_transaction')
    if f:
        e = ex(prog, f)
        ret = e.local(0)
        # (submission, payload) tuple per network
        got = {}
        for l in range(len(f.locals)):
            for bb, x, c in table(prog, f, l):
                if x[0] == 'agg' and x[1] == 'tuple' and len(x[4]) == 2 and len(c) == 1 and c[0][0] == 'is':
                    for net in c[0][2]:
                        got[net] = (const_val(x[4][0][1]), const_val(x[4][1][1]))
        shape = P.binop('Add', P.anything, P.binop('Mul', P.anything, P.cast(P.length(P.field('transaction', P.anything)))))(ret) or \
            P.binop('Add', P.anything, P.binop('Mul', P.anything, P.has(P.length(P.has(P.field('transaction'))))))(ret)
        ctx.check(shape, 'R5', 'send_transaction:formula', f, 'client cost = submission + payload * transaction.len()', 'client send_transaction cost is %s' % show(ret)[:200])
        for net in ('Mainnet', 'Testnet', 'Regtest'):
            cells += 1
            cv = got.get(net)
            t = canister.get(net) or {}
            good = cv is not None and all(isinstance(x, int) for x in cv) and cv[0] >= t.get('send_transaction_base', 1 << 200) and cv[1] >= t.get('send_transaction_per_byte', 1 << 200)
            ctx.check(good, 'R5', 'cell:send_transaction:%s' % net, f, 'client (base, per byte) = %s covers the canister default (%s, %s)' % (cv, t.get('send_transaction_base'), t.get('send_transaction_per_byte')),
                      'client send_transaction cost %s does not cover the canister default (%s, %s) on %s' % (cv, t.get('send_transaction_base'), t.get('send_transaction_per_byte'), net))
    ctx.floor('R5', 'client/canister cells compared', cells, 15)
    # the client attaches exactly the cost function's value
    for ep in ('bitcoin_get_utxos', 'bitcoin_get_balance', 'bitcoin_get_current_fee_percentiles', 'bitcoin_get_block_headers', 'bitcoin_send_transaction'):
        f = prog.fn(CL + ep + '::{closure#0}', required=False)
        if f is None:
            ctx.unknown('R5', 'attaches:' + ep, '', 'client function %s not found' % ep)
            continue
        ctx.touch(f)
        e = ex(prog, f)
        wc = [c for c in f.calls() if not c.cleanup and c.matches('ic_cdk::call::Call::with_cycles')]
        good = len(wc) == 1 and P.call(CL + 'cost_' + ep[len('bitcoin_'):], P.anything)(e.operand(wc[0].args[1]))
        ctx.check(good, 'R5', 'attaches:' + ep, wc[0] if wc else f, '%s attaches cost_%s(arg)' % (ep, ep[len('bitcoin_'):]), '%s does not attach its cost function\'s value' % ep)
        nm = [c for c in f.calls() if not c.cleanup and c.matches('ic_cdk::call::Call::bounded_wait', 'ic_cdk::call::Call::unbounded_wait')]
        meth = const_val(e.operand(nm[0].args[1])) if nm else None
        ctx.check(isinstance(meth, str) and meth.strip('"') == ep, 'R5', 'method-name:' + ep, nm[0] if nm else f, 'calls method "%s"' % ep, 'calls method %s' % meth)


# plumbing between the interface and the analysed functions (rules/plumbing.py)
_run_before_plumbing = run


def run(ctx):
    _run_before_plumbing(ctx)
    from rules import plumbing
    plumbing.config_from_init(ctx, 'R6')
    plumbing.init_applies_config(ctx, 'R6', fields=('fees',))
    plumbing.set_config_same_name(ctx, 'R6')
