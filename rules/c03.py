"""C03 — Finality: blocks stabilise only by the difficulty rule and never revert (DESIGN §5 C03)."""
from sa import pat as P
from sa.cfg import cfg
from sa.expr import ex, show, walk, cond_exprs, path_conditions, const_val
from sa.util import (gate, table, fmt_conds, describe_table, the_closure, require_callers, require_writers, field_assignments,
                     cond_variants, return_blocks, glob_any, local_assignments)
from sa.dataflow import accesses, writers, readers

EXPLANATION = (
    "Decides structurally: R1 the stable height is written only by UtxoSet::new (0) and by ingest_block_continue, as "
    "next_height + 1, exactly on the path where the transaction loop is exhausted; R2 the stable header store is "
    "append-only: its maps are written only by BlockHeaderStore::insert, reached only from the stable-block ingestion, "
    "with the height argument next_height() and the block that peek returned; R3 discarding (remove_child, cache and "
    "outpoint removal) happens only inside unstable_blocks::pop, called only by the ingestion function after a block's "
    "ingestion reported Done; R4 peek and pop decide through the one oracle get_stable_child; R5 the exact decision "
    "table (DNF of path conditions) of get_stable_child: None when deepest < T or (n >= 2 and deepest - second < T), "
    "T = anchor_difficulty x stability_threshold, the depth escape only under network in {Testnet, Regtest} with >= "
    "against the adaptive bound for both the depth and the lead; R6 the ingestion loop re-evaluates peek until None; "
    "R7 no entry point other than the heartbeat may write a field the stability decision reads while an ingestion can "
    "be paused (known finding F10: set_config / post_upgrade can change stability_threshold between slices). "
    "Does NOT decide: equality of the decision with the stated rule on all trees (values), that the new anchor lies on "
    "the served chain, promptness beyond the loop shape.")
RULES = {
    'R1': 'WRITERS(UtxoSet.next_height), EXPR of the update, position on the completion path; CALLERS of the two ingestion entry points ⊆ the ingestion loop',
    'R2': 'WRITERS of the header store maps, CALLERS(insert/insert_block), EXPR of height and block arguments',
    'R3': 'CALLERS of the discarding functions ⊆ pop; CALLERS(pop); pop sites on the Done arm; pop_block returns only if pop yielded the ingested block',
    'R4': 'peek and pop both go through get_stable_child',
    'R5': 'exact decision table (path-condition DNF) of get_stable_child; documented depth-bound formula; threshold handed over without `as`; Depth arithmetic, depth recursions and difficulty provenance as atoms',
    'R6': 'loop shape: peek re-evaluated until None within one call; heartbeat always runs the ingestion loop (no fast path)',
    'R7': 'no non-heartbeat entry point writes a field read by the stability decision',
    'R8': "the candidate child is chosen by the selector's order (difficulty, length, first received): sort key of get_stable_child vs the tie-break table of main_chain_by_difficulty (C02.R3)",
}
ASSUMPTIONS = []
UB = 'ic_btc_canister::unstable_blocks::'
GUB = 'ic_btc_canister::unstable_blocks::GenericUnstableBlocks'


def run(ctx):
    prog = ctx.prog
    r1(ctx)
    r2(ctx)
    r3(ctx)
    r4(ctx)
    r5(ctx)
    r6(ctx)
    r7(ctx)


def r1(ctx):
    prog = ctx.prog
    US = 'ic_btc_canister::utxo_set::UtxoSet'
    require_writers(ctx, 'R1', 'writers:next_height', US, 'next_height',
                    {US + '::new', US + '::ingest_block_continue', '<ic_btc_canister::utxo_set::UtxoSet as serde::de::Deserialize>::deserialize*',
                     '<ic_btc_canister::utxo_set::_::<impl serde::de::Deserialize* for ic_btc_canister::utxo_set::UtxoSet>::deserialize*', '*__Visitor*'}, floor=1)
    from sa.dataflow import aggregates
    ar = sorted({prog.root_of(f).short for f, _, _ in aggregates(prog, US)})
    ctx.check(all(glob_any(a, [US + '::new', '*Deserialize*', '*__Visitor*', '*::deserialize*']) for a in ar) and US + '::new' in ar, 'R1', 'constructors', '',
              'UtxoSet values are built only by UtxoSet::new and the deserialiser', 'UtxoSet constructed in %s' % ar)
    # the stable height only advances where the anchor is popped right after: the two ingestion entry
    # points are called from the ingestion loop only (an upgrade hook or endpoint that drives the UTXO
    # set directly would advance the height and leave the anchor in the tree)
    require_callers(ctx, 'R1', 'callers:ingest_block_continue', [US + '::ingest_block_continue'],
                    {'ic_btc_canister::state::ingest_stable_blocks_into_utxoset', US + '::ingest_block'})
    require_callers(ctx, 'R1', 'callers:ingest_block', [US + '::ingest_block'], {'ic_btc_canister::state::ingest_stable_blocks_into_utxoset'})
    f = ctx.fn('R1', US + '::ingest_block_continue')
    if f:
        fa = field_assignments(prog, f, US, 'next_height')
        good = len(fa) == 1 and P.binop('Add', P.field('next_height', P.param('self')), P.const(1))(fa[0][2])
        ctx.check(good, 'R1', 'plus-one', f.where(fa[0][0]) if fa else f, 'next_height = next_height + 1 (one site)', 'next_height updates: %s' % [show(x[2]) for x in fa])
        if fa:
            conds = cond_exprs(prog, f, fa[0][0])
            done = any(c[0] == 'is' and c[2] == ('None',) and P.has(P.call('*::next'))(c[1]) for c in conds)
            g = cfg(f)
            rets = [bb for bb, e, _ in table(prog, f) if P.has(P.agg(variant='Done'))(e)]
            ctx.check(done and rets and all(g.dominates(fa[0][0], r) for r in rets), 'R1', 'only-on-completion', f.where(fa[0][0]),
                      'the height advances only when the transaction loop is exhausted, and every Done return passes it',
                      'next_height is advanced under %s' % fmt_conds(conds))
    n = ctx.fn('R1', US + '::new')
    if n:
        r = ex(prog, n).local(0)
        v = dict(r[4]).get('next_height') if r[0] == 'agg' else None
        ctx.check(const_val(v) == 0, 'R1', 'initial-zero', n, 'a new UTXO set starts at height 0', 'initial next_height is %s' % show(v))


def r2(ctx):
    prog = ctx.prog
    BHS = 'ic_btc_canister::block_header_store::BlockHeaderStore'
    for fld in ('block_headers', 'block_heights'):
        require_writers(ctx, 'R2', 'writers:' + fld, BHS, fld, {BHS + '::insert', BHS + '::init', '*Deserialize*', '*__Visitor*'}, floor=1)
    require_callers(ctx, 'R2', 'callers:insert', [BHS + '::insert'], {BHS + '::insert_block'})
    cs = require_callers(ctx, 'R2', 'callers:insert_block', [BHS + '::insert_block'], {'ic_btc_canister::state::ingest_stable_blocks_into_utxoset'})
    for c in cs:
        e = ex(prog, c.fn)
        h = e.operand(c.args[2])
        b = e.operand(c.args[1])
        good = P.call('ic_btc_canister::utxo_set::UtxoSet::next_height', P.field('utxos', P.param('state')))(h)
        ctx.check(good, 'R2', 'height-arg', c, 'the header is recorded at height state.utxos.next_height()', 'header recorded at height %s' % show(h))
        good = P.call('ic_btc_canister::blocktree::CachedBlock::block', P.has(P.call(UB + 'peek')))(b)
        ctx.check(good, 'R2', 'block-arg', c, 'the recorded header is that of the block peek returned (the anchor)', 'recorded block is %s' % show(b))
        # and the same block is the one ingested
        ing = [k for k in c.fn.calls_to('ic_btc_canister::utxo_set::UtxoSet::ingest_block') if not k.cleanup]
        good = bool(ing) and e.operand(ing[0].args[1]) == b
        ctx.check(good, 'R2', 'same-block-ingested', ing[0] if ing else c, 'the block whose header is recorded is the block ingested', 'ingested block differs from the recorded one')


def r3(ctx):
    prog = ctx.prog
    BT = 'ic_btc_canister::blocktree::BlockTree'
    require_callers(ctx, 'R3', 'callers:remove_child', [BT + '::remove_child'], {UB + 'pop'})
    require_callers(ctx, 'R3', 'callers:into_root_and_remove_from_cache', [BT + '::into_root_and_remove_from_cache'], {UB + 'pop'})
    require_callers(ctx, 'R3', 'callers:remove_from_cache', [BT + '::remove_from_cache'], {BT + '::remove_from_cache', BT + '::into_root_and_remove_from_cache'})
    require_callers(ctx, 'R3', 'callers:outpoints_remove', [UB + 'outpoints_cache::OutPointsCache::remove'], {UB + 'pop'})
    cs = require_callers(ctx, 'R3', 'callers:pop', [UB + 'pop'], {'ic_btc_canister::state::ingest_stable_blocks_into_utxoset', 'ic_btc_canister::state::ingest_stable_blocks_into_utxoset::pop_block'})
    require_callers(ctx, 'R3', 'callers:pop_block', ['ic_btc_canister::state::ingest_stable_blocks_into_utxoset::pop_block'], {'ic_btc_canister::state::ingest_stable_blocks_into_utxoset'})
    # cache removal only from remove_from_cache
    rm = [c for c in prog.all_calls() if c.gshort and c.gshort.endswith('BlocksCache::remove') and not c.cleanup]
    roots = sorted({prog.root_of(c.fn).short for c in rm})
    ctx.check(bool(rm) and all(glob_any(r, [BT + '::remove_from_cache', BT + '::*', '<*BlocksCache*>::*']) for r in roots), 'R3', 'callers:blocks_cache_remove', rm[0] if rm else '',
              'block bodies are removed from the cache only by BlockTree::remove_from_cache', 'BlocksCache::remove called from %s' % roots)
    f = ctx.fn('R3', 'ic_btc_canister::state::ingest_stable_blocks_into_utxoset')
    if f:
        pbs = [c for c in f.calls() if not c.cleanup and c.callee and c.callee.endswith('::pop_block')]
        ctx.floor('R3', 'pop_block sites', len(pbs), 2)
        for i, c in enumerate(pbs):
            vs = cond_variants(prog, f, c.bb)
            ctx.check('Done' in vs and 'Paused' not in vs, 'R3', 'pop-after-done#%d' % i, c, 'the anchor is popped only after its ingestion reported Slicing::Done',
                      'pop_block is called under %s' % sorted(vs))
            # the popped block is asserted to be the ingested one
        pb = [x for x in prog.descendants(f) if x.short.endswith('::pop_block')] + prog.find('ic_btc_canister::state::ingest_stable_blocks_into_utxoset::pop_block')
        if pb:
            ctx.touch(pb[0])
            e = ex(prog, pb[0])
            pc = [c for c in pb[0].calls_to(UB + 'pop') if not c.cleanup]
            good = bool(pc) and P.call('ic_btc_canister::state::GenericState::stable_height', P.param('state'))(e.operand(pc[0].args[1]))
            ctx.check(good, 'R3', 'pop-height-arg', pc[0] if pc else pb[0], 'pop is given the current stable height', 'pop height argument unexpected')
            # a completed ingestion has already advanced the stable height: the pop must have produced the
            # ingested block on every normal return (anything else traps, which rolls the round back)
            rows = table(prog, pb[0])
            popped = P.has(P.call(UB + 'pop', P.anything, P.anything))
            same = P.binop('Eq', P.call('*::block_hash', popped), P.param())
            good = bool(rows) and all(any(same(k) for k in r[2] if isinstance(k, tuple)) for r in rows)
            ctx.check(good, 'R3', 'pop-must-yield-ingested-block', pb[0], 'pop_block returns normally only if pop produced the block that was just ingested',
                      'pop_block can return although pop produced nothing or another block — the stable height advanced without the anchor (rows: %s)' % describe_table(rows))


def r4(ctx):
    prog = ctx.prog
    pk = ctx.fn('R4', UB + 'peek')
    pp = ctx.fn('R4', UB + 'pop')
    gsc = P.call(UB + 'get_stable_child', P.param('blocks'))
    if pk:
        r = ex(prog, pk).local(0)
        ctx.check(P.call('core::option::Option::map', gsc, P.anything)(r), 'R4', 'peek-oracle', pk, 'peek = get_stable_child(blocks).map(root)', 'peek returns %s' % show(r))
    if pp:
        rows = table(prog, pp)
        none = [r for r in rows if not P.agg(variant='Some')(r[1])]
        some = [r for r in rows if P.agg(variant='Some')(r[1])]
        good = len(none) == 1 and P.exactly(none[0][2], [P.is_(P.has(gsc), 'Break')]) and len(some) == 1 and any(P.is_(P.has(gsc), 'Continue')(c) for c in some[0][2])
        ctx.check(good, 'R4', 'pop-oracle', pp, 'pop returns None exactly when get_stable_child does', 'pop rows: %s' % describe_table(rows))
        e = ex(prog, pp)
        rc = [c for c in pp.calls_to('ic_btc_canister::blocktree::BlockTree::remove_child') if not c.cleanup]
        good = bool(rc) and P.has(P.downcast('Continue', P.has(gsc)))(e.operand(rc[0].args[1]))
        ctx.check(good, 'R4', 'pop-uses-decided-child', rc[0] if rc else pp, 'the child removed is the one get_stable_child selected', 'remove_child index is not the oracle\'s answer')
    cs = prog.callers(UB + 'get_stable_child')
    roots = sorted({prog.root_of(c.fn).short for c in cs})
    ctx.check(roots == [UB + 'peek', UB + 'pop'], 'R4', 'oracle-users', '', 'get_stable_child is used by peek and pop only', 'get_stable_child callers: %s' % roots)


def r5(ctx):
    prog = ctx.prog
    f = ctx.fn('R5', UB + 'get_stable_child')
    if not f:
        return
    rows = table(prog, f)
    T = P.call('ic_btc_canister::blocktree::DifficultyBasedDepth::new', P.call(GUB + '::normalized_stability_threshold', P.param('blocks')))
    last = P.has(P.call('core::slice::last'))
    second = P.has(P.call('core::slice::get'))
    deepest_ge_T = P.binop('Le', T, last)
    lead = P.call('<ic_btc_canister::blocktree::DifficultyBasedDepth as core::ops::arith::Sub>::sub', last, second)
    lead_ge_T = P.binop('Le', T, lead)
    n_lt_2 = P.either(P.binop('Lt', P.has(P.call('alloc::vec::Vec::len')), P.const(2)), P.is_(P.call('core::slice::get', P.anything, P.anything), 'None'))
    maxd = P.call(UB + 'testnet_unstable_max_depth_difference', P.call(UB + 'blocks_count', P.param('blocks')), P.call(GUB + '::stability_threshold', P.param('blocks')))
    depth = P.call('ic_btc_canister::blocktree::BlockTree::depth', P.anything)
    depth_ge = P.binop('Le', maxd, depth)
    lead_depth_ge = P.binop('Le', maxd, P.call('ic_btc_canister::blocktree::Depth::saturating_sub', P.has(depth), P.anything))
    net_tr = P.either(P.binop('Eq', P.has(P.agg(variant='Testnet')), P.call(GUB + '::get_network', P.param('blocks'))),
                      P.binop('Eq', P.has(P.agg(variant='Regtest')), P.call(GUB + '::get_network', P.param('blocks'))),
                      P.is_(P.call(GUB + '::get_network', P.param('blocks')), 'Testnet'), P.is_(P.call(GUB + '::get_network', P.param('blocks')), 'Regtest'),
                      P.is_(P.call(GUB + '::get_network', P.param('blocks')), 'Regtest', 'Testnet'))
    somes = [r for r in rows if P.agg(variant='Some')(r[1])]
    nones = [r for r in rows if P.agg(variant='None')(r[1])]
    ctx.floor('R5', 'return rows of get_stable_child', len(rows), 5)
    esc, norm_ = [], []
    for bb, e, _ in somes:
        d = path_conditions(prog, f, bb)
        if d is None:
            ctx.unknown('R5', 'dnf', f.where(bb), 'path condition of a Some return is too large to enumerate')
            return
        for conj in d:
            if any(depth_ge(c) for c in conj) and any(lead_depth_ge(c) for c in conj) and not any(deepest_ge_T(c) for c in conj):
                esc.append((bb, conj))
            else:
                norm_.append((bb, conj))
    # depth escape only on testnet/regtest, both comparisons with >=
    good = bool(esc) and all(any(net_tr(c) for c in conj) for _, conj in esc)
    ctx.check(good, 'R5', 'depth-escape-testnets-only', f.where(esc[0][0]) if esc else f,
              'the depth-bound escape is taken only for Testnet/Regtest, with depth >= bound and lead >= bound (%d disjuncts)' % len(esc),
              'a Some(child) return by depth is reachable outside Testnet/Regtest or without both >= tests: %s' % [fmt_conds(c)[:200] for _, c in esc if not any(net_tr(x) for x in c)][:2])
    # normal rule: every other Some disjunct has deepest >= T and (n < 2 or lead >= T)
    bad = [(bb, conj) for bb, conj in norm_ if not (any(deepest_ge_T(c) for c in conj) and (any(lead_ge_T(c) for c in conj) or any(n_lt_2(c) for c in conj)))]
    ctx.check(bool(norm_) and not bad, 'R5', 'difficulty-rule', f.where(norm_[0][0]) if norm_ else f,
              'Some(child) otherwise requires deepest >= T and (fewer than 2 children or deepest - second >= T) (%d disjuncts)' % len(norm_),
              'a Some(child) return does not require the difficulty rule: %s' % [fmt_conds(c)[:300] for _, c in bad][:2])
    # None rows: deepest < T, or lead < T
    okn = 0
    for bb, e, conds in nones:
        if any(P.binop('Lt', last, T)(c) for c in conds) or any(P.binop('Lt', lead, T)(c) for c in conds):
            okn += 1
    ctx.check(okn == len(nones) and okn >= 2, 'R5', 'none-rows', f, 'None is returned exactly under deepest < T or deepest - second < T', 'None rows: %s' % describe_table(nones))
    # the chosen child is the last of the list sorted by difficulty-based depth
    srt = [c for c in f.calls() if not c.cleanup and c.matches('alloc::slice::sort_by_key', 'core::slice::sort_by_key', 'alloc::slice::sort_by_cached_key', 'core::slice::sort_unstable_by_key')]
    g = cfg(f)
    lst = [c for c in f.calls() if not c.cleanup and c.matches('core::slice::last')]
    ctx.check(bool(srt) and bool(lst) and g.dominates(srt[0].bb, lst[0].bb), 'R5', 'deepest-is-max', srt[0] if srt else f,
              'children are sorted by difficulty-based depth before the deepest (last) is taken', 'deepest child is taken from an unsorted list')
    tie_break(ctx, f, srt)
    # T
    # the documented adaptive depth bound itself: min(threshold, MAX - 1) from MAX_UNSTABLE_BLOCKS unstable
    # blocks on, linear interpolation MAX -> that minimum below (never less than the minimum)
    db = ctx.fn('R5', UB + 'testnet_unstable_max_depth_difference')
    if db:
        rows = table(prog, db)
        MC = P.maybe_cast
        MAXD = MC(P.call('ic_btc_canister::blocktree::Depth::get', P.item('MAX_TESTNET_UNSTABLE_DEPTH_DIFFERENCE')))
        MIND = MC(P.call('min', P.binop('Sub', MAXD, P.const(1)), P.param('stability_threshold')))
        TOT, CAP = P.param('total_unstable_blocks'), P.item('MAX_UNSTABLE_BLOCKS', 1500)
        flat = [r for r in rows if P.call('*::Depth::new', MIND)(r[1]) and P.exactly(r[2], [P.binop('Le', CAP, TOT)])]
        interp = P.call('*::Depth::new', MC(P.call('*::round', P.binop('Sub', MAXD, P.binop('Mul', P.binop('Div', MC(TOT), MC(CAP)), MC(P.binop('Sub', MAXD, MIND)))))))
        slope = [r for r in rows if interp(r[1]) and P.exactly(r[2], [P.binop('Lt', TOT, CAP)])]
        ctx.check(len(rows) == 2 and len(flat) == 1 and len(slope) == 1, 'R5', 'depth-bound-formula', db,
                  'depth bound = min(threshold, MAX-1) when total >= 1500, else round(MAX - total/1500 * (MAX - min))',
                  'adaptive depth bound is not the documented one: %s' % describe_table(rows))
    # the threshold the decision multiplies is the configured one: every writer hands it over without a
    # lossy conversion (a request value that does not fit is refused, never truncated)
    sets = prog.callers(GUB + '::set_stability_threshold')
    ctx.floor('R5', 'set_stability_threshold call sites', len(sets), 1)
    for c in sets:
        a = ex(prog, c.fn).operand(c.args[1])
        lossy = [x for x in walk(a) if isinstance(x, tuple) and x[0] == 'cast']
        ctx.touch(c.fn)
        ctx.check(not lossy, 'R5', 'threshold-set-unchanged:' + prog.root_of(c.fn).short.rsplit('::', 1)[-1], c,
                  'the configured stability threshold reaches the unstable blocks without an `as` conversion',
                  'the requested stability threshold is converted with `as` (%s): a value above the target type\'s range is silently truncated '
                  '(2^32 + 2 becomes 2), so anchors advance with far less work behind them than configured' % show(a)[:120])
    from rules import atoms
    atoms.depth_atoms(ctx, 'R5')
    atoms.depth_recursions(ctx, 'R5')
    nt = ctx.fn('R5', GUB + '::normalized_stability_threshold')
    if nt:
        r = ex(prog, nt).local(0)
        good = P.binop('Mul', P.call(GUB + '::anchor_difficulty', P.param('self')), P.cast(P.field('stability_threshold', P.param('self'))))(r)
        ctx.check(good, 'R5', 'threshold-expr', nt, 'T = anchor_difficulty() * stability_threshold', 'T = %s' % show(r))
    ad = ctx.fn('R5', GUB + '::anchor_difficulty')
    if ad:
        r = ex(prog, ad).local(0)
        good = P.call('*::difficulty', P.call('ic_btc_canister::blocktree::BlockTree::root', P.field('tree', P.param('self'))))(r)
        ctx.check(good, 'R5', 'anchor-difficulty', ad, 'anchor_difficulty = tree.root().difficulty()', 'anchor_difficulty = %s' % show(r))


def r6(ctx):
    prog = ctx.prog
    f = ctx.fn('R6', 'ic_btc_canister::state::ingest_stable_blocks_into_utxoset')
    if not f:
        return
    g = cfg(f)
    pk = [c for c in f.calls_to(UB + 'peek') if not c.cleanup]
    ing = [c for c in f.calls_to('ic_btc_canister::utxo_set::UtxoSet::ingest_block') if not c.cleanup]
    if not pk or not ing:
        ctx.unknown('R6', 'loop', f, 'peek / ingest_block not found')
        return
    h = g.in_loop(ing[0].bb)
    good = h is not None and pk[0].bb in g.loop_blocks(h)
    ctx.check(good, 'R6', 'peek-in-loop', pk[0], 'peek is re-evaluated in the ingestion loop after every completed block', 'peek is not re-evaluated after a block completed')
    # every heartbeat starts with the ingestion step, under no condition: an eligible child is taken at
    # the next opportunity
    hb = ctx.fn('R6', 'ic_btc_canister::heartbeat::heartbeat::{closure#0}')
    if hb:
        ic = [c for c in hb.calls_to('ic_btc_canister::heartbeat::ingest_stable_blocks_into_utxoset') if not c.cleanup]
        gh = cfg(hb)
        rets = return_blocks(hb)
        good = len(ic) == 1 and not cond_exprs(prog, hb, ic[0].bb) and all(gh.dominates(ic[0].bb, r) for r in rets)
        ctx.check(good, 'R6', 'heartbeat-always-ingests', ic[0] if ic else hb, 'every heartbeat runs the stable-block ingestion first, unconditionally',
                  'the heartbeat does not run the ingestion step unconditionally (conditions: %s)' % (fmt_conds(cond_exprs(prog, hb, ic[0].bb)) if ic else 'call not found'))
    w = ctx.fn('R6', 'ic_btc_canister::heartbeat::ingest_stable_blocks_into_utxoset')
    if w:
        from rules.walks import ingestion_wrapper_direct
        good, why = ingestion_wrapper_direct(prog, w)
        ctx.check(good, 'R6', 'heartbeat-step-is-the-ingestion-loop', w, 'the heartbeat\'s ingestion step runs state::ingest_stable_blocks_into_utxoset under no condition of its own',
                  'the heartbeat\'s ingestion step can skip the stability decision (%s)' % why)
    rows = [r for r in table(prog, f) if P.agg(variant='Done')(r[1])]
    # the Paused arms of the two ingestion calls return early: they guard the Done row off the dominator chain
    paused_arm = lambda c: c[0] == 'hidden' and any(isinstance(x, tuple) and x[0] == 'call' and x[1].rsplit('::', 1)[-1] in ('ingest_block_continue', 'ingest_block') for x in walk(c[1]))
    good = len(rows) == 1 and P.exactly([c for c in rows[0][2] if not paused_arm(c)], [P.is_(P.call(UB + 'peek', P.anything), 'None')])
    ctx.check(good, 'R6', 'done-only-when-none', f.where(rows[0][0]) if rows else f, 'Done is returned only when peek finds no stable child', 'Done rows: %s' % describe_table(rows))


def r7(ctx):
    prog = ctx.prog
    f = ctx.fn('R7', UB + 'get_stable_child')
    if not f:
        return
    reach = prog.reach([f])
    fields = set()
    adt = prog.adts.get(GUB)
    names = [x['name'] for x in adt['variants'][0]['fields']] if adt else []
    for fld in names:
        if readers(prog, GUB, fld, list(reach.values())):
            fields.add(fld)
    ctx.floor('R7', 'state fields read by the stability decision', len(fields), 3)
    # entry points = exported methods of the canister binary
    entries = {}
    for fn in prog.fns.values():
        if fn.target == 'ic_btc_canister.bin' and fn.export_name:
            entries[fn.export_name.replace('canister_update.', '').replace('canister_query.', '').replace('canister_', '')] = fn
    hb = {k: v for k, v in entries.items() if k == 'heartbeat'}
    for fld in sorted(fields):
        ws = writers(prog, GUB, fld)
        wroots = {prog.root_of(w.fn).id: prog.root_of(w.fn) for w in ws}
        for name, ef in sorted(entries.items()):
            if name in ('heartbeat', 'init'):
                continue
            r = prog.reach([ef])
            hit = [w for w in wroots.values() if w.id in r and not glob_any(w.short, ['*Deserialize*', '*__Visitor*', GUB + '::map_tree', UB + 'GenericUnstableBlocks::new'])]
            # post_upgrade legitimately rebuilds / re-attaches the whole tree value (not a decision input change): allow tree writes there
            hit = [w for w in hit if not (name == 'post_upgrade' and fld in ('tree', 'tip_depths_cache'))]
            for w in hit:
                ctx.bad('R7', 'interference:%s@%s' % (fld, name), w,
                        'entry point `%s` can write `%s` (via %s), which get_stable_child reads, while a stable block\'s ingestion is paused: peek decided to '
                        'stabilise, the later pop re-decides with the new value, may return None, and `pop(..).unwrap()` then traps every heartbeat' % (name, fld, w.short))
            if not hit:
                ctx.ok('R7', 'interference:%s@%s' % (fld, name), '', '`%s` cannot write `%s`' % (name, fld), nontrivial=bool(wroots))


def tie_break(ctx, f, srt):
    """R8 (F13): the candidate the decision is about is the child the served chain goes through. The selector
    (`main_chain_by_difficulty`) orders children by (accumulated difficulty, length) and keeps the first
    received on a full tie (strict `>`; C02.R3). `get_stable_child` takes the last element of a *stable* sort:
    if the sort key is the difficulty alone, two children with equal accumulated difficulty are ranked by
    arrival order (the later one wins), so for the same tree the testnet/regtest depth rule is evaluated on
    one child or the other depending on which fork arrived first, and the anchor advances in one arrival
    order and not in the other. Rule: the sort key has the selector's three components — difficulty, then the
    child's length, then the child's position reversed (earlier = greater)."""
    prog = ctx.prog
    if not srt:
        ctx.unknown('R8', 'candidate-order-agrees-with-selector', f, 'sort of the children by difficulty not found in get_stable_child')
        return
    c = srt[0]
    ks = [prog.fns[k] for k in c.closure_args() if k in prog.fns] if c.closure_args() else []
    if not ks:
        e = ex(prog, f)
        ks = [prog.fns[x[1]] for a in c.args for x in walk(e.operand(a)) if isinstance(x, tuple) and x[0] == 'closure' and x[1] in prog.fns]
    if len(ks) != 1:
        ctx.unknown('R8', 'candidate-order-agrees-with-selector', c, 'sort key closure of get_stable_child not found (%d)' % len(ks))
        return
    k = ks[0]
    ctx.touch(k)
    r = ex(prog, k).local(0)
    ELT = lambda n: P.field(n, P.param())           # component n of the (difficulty, index) element
    DIFF = ELT('0')
    CHILD = P.index(P.has(P.call('*::children', P.anything)), ELT('1'))
    LEN = P.call('ic_btc_canister::blocktree::BlockTree::depth', P.has(CHILD))
    FIRST = P.agg(adt_suffix='Reverse', _0=ELT('1'))
    comps = [v for _, v in r[4]] if isinstance(r, tuple) and r[0] == 'agg' and r[1] == 'tuple' else [r]
    good = len(comps) == 3 and DIFF(comps[0]) and LEN(comps[1]) and FIRST(comps[2])
    ctx.check(good, 'R8', 'candidate-order-agrees-with-selector', k,
              'children are ranked by (accumulated difficulty, length, first received) — the order of the best-chain selector — before the deepest is taken',
              'children are ranked by %s only: with equal accumulated difficulty the later-received child is the candidate whatever its length, while the served chain prefers the longer / earlier one — '
              'whether the anchor advances depends on the arrival order of the forks' % ' / '.join(show(x)[:60] for x in comps))


# plumbing between the interface and the analysed functions (rules/plumbing.py)
_run_before_plumbing = run


def run(ctx):
    _run_before_plumbing(ctx)
    from rules import plumbing
    plumbing.init_applies_config(ctx, 'R5', fields=())
