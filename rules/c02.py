"""C02 — Every endpoint serves the heaviest chain and agrees on its tip (DESIGN §5 C02)."""
from sa import pat as P
from sa.cfg import cfg
from sa.expr import ex, show, walk, cond_exprs, const_val
from sa.util import table, fmt_conds, describe_table, require_callers, glob_any
from rules.walks import *

EXPLANATION = (
    "Decides structurally: R1 one best-chain selector — BlockTree::main_chain_by_difficulty / "
    "main_chain_length_by_difficulty are reached only through unstable_blocks::get_main_chain / get_main_chain_length, "
    "whose callers are the frozen set of endpoint implementations (blockchain_info, get_utxos_internal, get_balance, fee "
    "percentiles, header ranges, main_chain_height); get_chain_with_tip is used only by the page path and the validation "
    "context; R2 twin agreement — the chain and the length recursion have the same decision skeleton (base case, initial "
    "key (0, 0), strict tuple comparison best < key, accumulation self + best.0 / 1 + best.1, forward iteration over "
    "children); R3 tie-break table — key = (accumulated difficulty, length) compared strictly, children appended in "
    "arrival order; R4 the unfiltered walk is total — with min_confirmations = 0 (the constant both unfiltered call sites "
    "pass) no per-block cut literal stays feasible in get_utxos_from_chain (constant + sign evaluation), so the answer "
    "names the same tip as get_blockchain_info; R5 every field of BlockchainInfo derives from main_chain.tip() / "
    "main_chain_height; R6 height = best-chain length + next_height - 1. "
    "Does NOT decide: that the recursion returns the maximum over all leaf paths for every tree (value-level).")
RULES = {
    'R1': 'CALLERS of the best-chain selectors and of other chain constructors',
    'R2': 'sibling agreement of the two main-chain recursions',
    'R3': 'strict comparison on (difficulty, length); arrival-order children',
    'R4': 'SPEC(get_utxos_from_chain | min_confirmations = 0): no feasible early exit from the chain walk',
    'R5': 'EXPR of each BlockchainInfo field',
    'R6': 'EXPR of main_chain_height',
    'R7': 'the anchor advances only to the child the stability decision table selects, the heaviest (= C03.R5)',
}
ASSUMPTIONS = ['depth counts fit i32 (`as i32` does not wrap)']
BT = 'ic_btc_canister::blocktree::BlockTree::'


def run(ctx):
    prog = ctx.prog
    r1(ctx)
    r2_r3(ctx)
    r4(ctx, 'R4')
    # the balance walk is the other unfiltered reader of the best chain: with c = 0 it must reach the
    # same tip (shared with C05.R1 `unfiltered-total`)
    from rules import c05
    c05.unfiltered_total(ctx, 'R4')
    # R7: the anchor only advances into the heaviest branch: a forced advance down a lighter branch
    # discards the accepted heaviest chain, after which every endpoint serves a lighter one (shared with
    # the decision table of C03.R5)
    from sa.engine import SubCtx
    from rules import c03
    c03.r5(SubCtx(ctx, {'R5': 'R7'}))
    r5_r6(ctx)


def r1(ctx):
    prog = ctx.prog
    require_callers(ctx, 'R1', 'callers:main_chain_by_difficulty', [BT + 'main_chain_by_difficulty'], {UB + 'get_main_chain'})
    require_callers(ctx, 'R1', 'callers:main_chain_length_by_difficulty', [BT + 'main_chain_length_by_difficulty'], {UB + 'get_main_chain_length'})
    require_callers(ctx, 'R1', 'callers:inner', [BT + 'main_chain_by_difficulty_inner'], {BT + 'main_chain_by_difficulty', BT + 'main_chain_by_difficulty_inner'})
    require_callers(ctx, 'R1', 'callers:inner-length', [BT + 'main_chain_length_by_difficulty_inner'], {BT + 'main_chain_length_by_difficulty', BT + 'main_chain_length_by_difficulty_inner'})
    require_callers(ctx, 'R1', 'callers:get_main_chain', [UB + 'get_main_chain'],
                    {'ic_btc_canister::state::blockchain_info', GU + 'get_utxos_internal', GB + 'get_balance_private',
                     'ic_btc_canister::api::fee_percentiles::get_current_fee_percentiles_with_number_of_transactions',
                     UB + 'GenericUnstableBlocks::get_block_headers_in_range', 'ic_btc_canister::api::metrics::*'}, floor=5)
    require_callers(ctx, 'R1', 'callers:get_main_chain_length', [UB + 'get_main_chain_length'], {'ic_btc_canister::state::main_chain_height'})
    # users of main_chain_height (direct calls and fn-item uses)
    users = set()
    mh = 'ic_btc_canister::state::main_chain_height'
    for f in prog.fns.values():
        for g_, via in prog.callees_of(f):
            if g_.short == mh:
                users.add(prog.root_of(f).short)
    allowed = {'ic_btc_canister::state::blockchain_info', 'ic_btc_canister::is_synced', 'ic_btc_canister::api::metrics::*', 'ic_btc_canister::api::get_block_headers::verify_and_return_effective_range'}
    extra = sorted(u for u in users if not glob_any(u, allowed))
    ctx.check(not extra and len(users) >= 4, 'R1', 'users:main_chain_height', '', 'main_chain_height is used by %s' % sorted(users), 'unexpected / missing users of main_chain_height: %s' % (extra or sorted(users)))
    require_callers(ctx, 'R1', 'callers:get_chain_with_tip', [UB + 'get_chain_with_tip'], {GU + 'get_utxos_internal', 'ic_btc_canister::validation::ValidationContext::new'}, floor=2)
    # header ranges use the best chain
    hr = ctx.fn('R1', UB + 'GenericUnstableBlocks::get_block_headers_in_range')
    if hr:
        ok = any(c.matches(UB + 'get_main_chain') for c in hr.calls() if not c.cleanup)
        ctx.check(ok, 'R1', 'headers-from-best-chain', hr, 'unstable header ranges are slices of get_main_chain', 'header range does not use get_main_chain')


def skeleton(prog, f):
    e = ex(prog, f)
    d = {}
    rows = table(prog, f)
    SD = P.call('ic_btc_canister::blocktree::DifficultyBasedDepth::new', P.call('ic_btc_canister::blocktree::ChainBlock::difficulty', P.field('root', P.param('self'))))
    base = [r for r in rows if P.exactly(r[2], [P.call('alloc::vec::Vec::is_empty', P.field('children', P.param('self')))])]
    d['base-case'] = len(base) == 1 and base[0][1][0] == 'agg' and SD(dict(base[0][1][4]).get('0')) and const_val(dict(base[0][1][4]).get('1')) == 1
    from sa.util import find_locals, is_var
    zero_key = lambda x, l: x[0] == 'agg' and len(x[4]) == 2 and P.call('ic_btc_canister::blocktree::DifficultyBasedDepth::new', P.const(0))(x[4][0][1]) and const_val(x[4][1][1]) == 0
    bks = find_locals(prog, f, zero_key)
    d['initial-key-(0,0)'] = len(bks) == 1
    l_bk = bks[0] if bks else -1
    BK = is_var(l_bk)
    bk = table(prog, f, l_bk) if bks else []
    upd = [x for x in bk if not zero_key(x[1], l_bk)]
    strict = False
    key_expr = None
    if len(upd) == 1:
        key_expr = upd[0][1]
        strict = any(c[0] == 'bin' and c[1] == 'Lt' and BK(c[2]) and (c[3] == key_expr or c[3][0] == 'var') for c in upd[0][2])
    d['strict-greater'] = strict
    # key = (child difficulty, child length)
    rec = P.call(f.short, P.anything)
    if key_expr is not None:
        if key_expr[0] == 'agg':
            kd = dict(key_expr[4])
            d['key=(difficulty,length)'] = P.field('0', rec)(kd.get('0')) and P.field('1', rec)(kd.get('1'))
        else:
            d['key=(difficulty,length)'] = rec(key_expr)
    else:
        d['key=(difficulty,length)'] = False
    fin = [r for r in rows if r not in base]
    okf = False
    if len(fin) == 1 and fin[0][1][0] == 'agg':
        fd = dict(fin[0][1][4])
        okf = P.call('<ic_btc_canister::blocktree::DifficultyBasedDepth as core::ops::arith::Add>::add', SD, P.field('0', BK))(fd.get('0')) and \
            P.binop('Add', P.const(1), P.field('1', BK))(fd.get('1'))
    d['accumulation'] = okf
    it = [c for c in f.calls() if not c.cleanup and c.matches('core::slice::iter')]
    bad = [c for c in f.calls() if not c.cleanup and c.matches('*::rev', '*::skip', '*::take', '*::filter', '*::step_by', '*::sort*')]
    d['forward-over-children'] = len(it) == 1 and P.field('children', P.param('self'))(e.operand(it[0].args[0])) and not bad
    return d


def r2_r3(ctx):
    prog = ctx.prog
    a = ctx.fn('R2', BT + 'main_chain_by_difficulty_inner')
    b = ctx.fn('R2', BT + 'main_chain_length_by_difficulty_inner')
    if not (a and b):
        return
    sa_, sb = skeleton(prog, a), skeleton(prog, b)
    for k in sorted(sa_):
        ctx.check(sa_[k] and sb[k], 'R2', 'twin:' + k, a if not sa_[k] else b, 'both recursions satisfy `%s`' % k,
                  '`%s`: chain recursion=%s, length recursion=%s — height and block_hash of one get_blockchain_info answer may describe different blocks' % (k, sa_[k], sb[k]))
    # the chain carried along is the chosen child's, with the root appended
    e = ex(prog, a)
    from sa.util import find_locals
    child_chain = P.field('2', P.call(a.short, P.anything))
    bcs = find_locals(prog, a, lambda x, l: child_chain(x), lambda x, l: not child_chain(x))
    zero_key = lambda x: x[0] == 'agg' and len(x[4]) == 2 and P.call('ic_btc_canister::blocktree::DifficultyBasedDepth::new', P.const(0))(x[4][0][1]) and const_val(x[4][1][1]) == 0
    bks = find_locals(prog, a, lambda x, l: zero_key(x))
    same_cond = False
    if len(bcs) == 1 and len(bks) == 1:
        chosen = [x for x in table(prog, a, bcs[0]) if child_chain(x[1])]
        bk = [x for x in table(prog, a, bks[0]) if not zero_key(x[1])]
        same_cond = len(chosen) == 1 and len(bk) == 1 and chosen[0][2] == bk[0][2]
    ctx.check(same_cond, 'R3', 'chain-follows-key', a, 'best_chain is replaced exactly when best_key is (same condition)', 'best_chain and best_key are updated under different conditions')
    push = [c for c in a.calls() if not c.cleanup and c.matches('alloc::vec::Vec::push')]
    ctx.check(any(P.field('root', P.param('self'))(e.operand(c.args[1])) for c in push), 'R3', 'root-appended', a, 'the node\'s own block is appended to the chosen child chain', 'root is not appended to the chain')
    ext = ctx.fn('R3', BT + 'extend')
    if ext:
        pushes = [c for c in ext.calls() if not c.cleanup and c.matches('alloc::vec::Vec::push') and P.has(P.field('children'))(ex(prog, ext).operand(c.args[0]))]
        ctx.check(len(pushes) == 1, 'R3', 'arrival-order', ext, 'children are appended in arrival order (first received wins ties)', 'children are not appended with push')
    mc = ctx.fn('R3', BT + 'main_chain_by_difficulty')
    if mc:
        g = cfg(mc)
        pop = [c for c in mc.calls() if not c.cleanup and c.matches('alloc::vec::Vec::pop')]
        rev = [c for c in mc.calls() if not c.cleanup and c.matches('core::slice::reverse')]
        nw = [c for c in mc.calls() if not c.cleanup and c.matches('ic_btc_canister::blocktree::BlockChain::new_with_successors')]
        ctx.check(len(pop) == 1 and len(rev) == 1 and len(nw) == 1 and g.dominates(pop[0].bb, rev[0].bb) and g.dominates(rev[0].bb, nw[0].bb), 'R3', 'chain-orientation', mc,
                  'the reversed recursion result is turned into root-first order (pop root, reverse rest)', 'chain orientation code not recognised')


def r4(ctx, rule, only_page=False):
    prog = ctx.prog
    f = ctx.fn(rule, GU + 'get_utxos_from_chain')
    gi = ctx.fn(rule, GU + 'get_utxos_internal')
    gp = ctx.fn(rule, GU + 'get_utxos_private')
    if not (f and gi and gp):
        return
    # which call sites pass the constant 0
    sites = {}
    for k in [gp] + prog.descendants(gp):
        e = ex(prog, k)
        for c in k.calls_to(GU + 'get_utxos_internal'):
            if c.cleanup:
                continue
            vs = cond_variants_simple(prog, k, c.bb)
            arm = 'Page' if 'Page' in vs else 'MinConfirmations' if 'MinConfirmations' in vs else 'None' if 'None' in vs else '?'
            sites[arm] = (c, e.operand(c.args[2]), e.operand(c.args[3]))
    for arm in (('Page',) if only_page else ('None',)):
        if arm not in sites:
            ctx.unknown(rule, 'constant-zero:' + arm, gp, 'call site of get_utxos_internal for filter=%s not found' % arm)
            continue
        c, mc, pg = sites[arm]
        ctx.check(const_val(mc) == 0, rule, 'constant-zero:' + arm, c, 'the %s request passes min_confirmations = 0' % ('page' if arm == 'Page' else 'unfiltered'),
                  'the %s request passes min_confirmations = %s' % (arm, show(mc)))
    # min_confirmations flows unchanged from get_utxos_internal into get_utxos_from_chain
    e = ex(prog, gi)
    okflow = all(P.param('min_confirmations')(e.operand(c.args[2])) for c in gi.calls_to(GU + 'get_utxos_from_chain') if not c.cleanup)
    ctx.check(okflow, rule, 'constant-flows', gi, 'min_confirmations is passed through unchanged to the chain walk', 'min_confirmations is transformed on the way to the chain walk')
    k, ap, h = find_walk(prog, f, ['ic_btc_canister::address_utxoset::AddressUtxoSet::apply_block'])
    if ap is None:
        ctx.unknown(rule, 'walk', f, 'chain walk not found')
        return
    walk_exits(ctx, rule, prog, k, h, 'get_utxos')
    ok, why = total_under(prog, f, ap.bb, {'min_confirmations': 0})
    what = 'page' if only_page else 'unfiltered'
    ctx.check(ok, rule, ('page-walk-total' if only_page else 'unfiltered-walk-total'), ap,
              'with min_confirmations = 0 every block of the chain is applied: the %s answer is as of the chain\'s tip (%s)' % (what, why[:160]),
              'with min_confirmations = 0 %s — a best-chain block (chosen by difficulty) that has a longer competitor at its height has a negative stability count, so the %s '
              'answer names a tip below the one get_blockchain_info and get_balance use' % (why, what))


def cond_variants_simple(prog, fn, bb):
    from sa.util import cond_variants
    return cond_variants(prog, fn, bb)


def r5_r6(ctx):
    prog = ctx.prog
    f = ctx.fn('R5', 'ic_btc_canister::state::blockchain_info')
    if f:
        r = ex(prog, f).local(0)
        tip = P.call('ic_btc_canister::blocktree::BlockChain::tip', P.call(UB + 'get_main_chain', P.field('unstable_blocks', P.param('state'))))
        d = dict(r[4]) if r[0] == 'agg' else {}
        checks = {
            'height': P.call('ic_btc_canister::state::main_chain_height', P.param('state')),
            'block_hash': P.call('ic_btc_types::BlockHash::to_vec', P.call('*::block_hash', tip)),
            'timestamp': P.field('time', P.call('*::header', tip)),
            'difficulty': P.call('*::difficulty', tip),
        }
        for k, pat in checks.items():
            ctx.check(k in d and pat(d[k]), 'R5', 'info:' + k, f, 'BlockchainInfo.%s derives from the best chain\'s tip' % k, 'BlockchainInfo.%s = %s' % (k, show(d.get(k))[:200] if k in d else None))
    f = ctx.fn('R6', 'ic_btc_canister::state::main_chain_height')
    if f:
        r = ex(prog, f).local(0)
        want = P.binop('Sub', P.binop('Add', P.cast(P.call(UB + 'get_main_chain_length', P.field('unstable_blocks', P.param('state'))), 'u32'),
                                      P.call('ic_btc_canister::utxo_set::UtxoSet::next_height', P.field('utxos', P.param('state')))), P.const(1))
        ctx.check(want(r), 'R6', 'height-formula', f, 'main_chain_height = best-chain length + next_height - 1', 'main_chain_height = %s' % show(r))
    for fid, key in ((UB + 'get_main_chain', 'get_main_chain'), (UB + 'get_main_chain_length', 'get_main_chain_length')):
        f = ctx.fn('R6', fid)
        if f:
            r = ex(prog, f).local(0)
            want = P.call(BT + ('main_chain_by_difficulty' if key == 'get_main_chain' else 'main_chain_length_by_difficulty'), P.field('tree', P.param('blocks')))
            ctx.check(want(r), 'R6', key, f, '%s is the difficulty-based selector on the whole tree' % key, '%s = %s' % (key, show(r)))
