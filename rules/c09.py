"""C09 — Upgrades are transparent at every point (DESIGN §5 C09)."""
import json, os
from sa import pat as P
from sa.cfg import cfg
from sa.expr import ex, show, walk, cond_exprs, const_val
from sa.facts import const_of, norm, place_of
from sa.util import (gate, table, fmt_conds, describe_table, require_callers, require_writers, field_assignments, the_closure,
                     return_blocks, glob_any, local_assignments)
from sa.dataflow import accesses, writers, readers

EXPLANATION = (
    "Decides structurally: R1 serialisation coverage — for every ADT reachable by field type from the state type "
    "(State = GenericState<BlockTree<CachedBlock>>) the set of fields its (derived or hand-written) Serialize impl does "
    "not write is computed from the MIR; every omitted field must be listed in spec/c09_derived_fields.json with "
    "evidence that the engine re-checks on every run: (a) stable-memory backed (its serde default fn re-attaches "
    "StableBTreeMap::init(memory::get_X_memory()), MemoryIds pairwise distinct), (b) rebuilt on the post-upgrade path, "
    "or (c) optional with a recompute arm in every reader; an omitted field with none of these changes answers across "
    "an upgrade (known finding F7: CachedBlock.utxo_delta); R2 the fetch state is reset on both sides of the upgrade; "
    "R3 the block-body cache is re-attached before the restored state is published (new-format path) or built by "
    "into_cached (old-format path); R4 the config argument is applied after the restore and set_config_no_verification "
    "handles every field of SetConfigRequest; R5 writer and reader agree on the layout of the upgrade region (u32 LE "
    "length at offset 0, bytes at offset 4). "
    "Does NOT decide: equality of every answer and of the subsequent evolution (behavioural).")
RULES = {
    'R1': 'SER(T) for every state ADT; omitted fields ⊆ reviewed table with re-checked evidence',
    'R1c': 'the recompute arm of the optional fee cache agrees with the insertion-time computation (= C15.R2/R3)',
    'R2': 'reset_syncing_state before serialisation and after set_state; reset_syncing_state clears both transient fields on every path',
    'R3': 'cache re-attachment dominates publication of the restored state',
    'R4': 'config argument applied after restore; field exhaustiveness of set_config_no_verification; every state write of set_config_no_verification sits under request.<field> is Some',
    'R5': 'layout agreement of the upgrade memory region; memory::write grows by the ceiling page count and then writes',
    'R6': 'WRITES(REACH(pre_upgrade, post_upgrade) minus the explicit config argument) ⊆ reviewed table of transient / derived fields',
}
ASSUMPTIONS = ['serde derive writes exactly the fields passed to serialize_field; ciborium round-trips them',
               'ic-stable-structures maps persist across upgrades when re-initialised on the same MemoryId']
WS = ('ic_btc_canister', 'ic_btc_types', 'ic_btc_interface', 'ic_btc_validation')
SPEC = os.path.join(os.path.dirname(os.path.dirname(os.path.abspath(__file__))), 'spec', 'c09_derived_fields.json')
ROOTS = ['ic_btc_canister::state::GenericState', 'ic_btc_canister::blocktree::BlockTree', 'ic_btc_canister::blocktree::CachedBlock']


def ser_impls(prog, adt):
    return [im for im in prog.impls if im['trait'].endswith('ser::Serialize') and im['self'].get('adt') == adt]


def state_adts(prog):
    seen, order = set(), []
    st = list(ROOTS)
    while st:
        a = st.pop()
        if a in seen or a not in prog.adts:
            continue
        seen.add(a)
        order.append(a)
        for v in prog.adts[a]['variants']:
            for f in v['fields']:
                for x in f['adts']:
                    if x.split('::')[0] in WS:
                        st.append(x)
    return order


def coverage(prog):
    """adt -> {kind: derived|hand|via-parent, fields, serialised, omitted}"""
    out = {}
    adts = state_adts(prog)
    for a in adts:
        ad = prog.adts[a]
        if ad['kind'] != 'Struct':
            continue
        fields = [f['name'] for f in ad['variants'][0]['fields']]
        ims = ser_impls(prog, a)
        if ims and all(im['exp'] for im in ims):
            names = set()
            for im in ims:
                fn = prog.fns.get(im['fns'].get('serialize'))
                if fn is None:
                    continue
                for c in fn.calls():
                    if c.gshort and c.gshort.endswith('::serialize_field'):
                        for op in c.args:
                            k = const_of(op)
                            if k and k.get('ty') == '&str':
                                names.add(k['s'].replace('const ', '').strip('"'))
                    if c.gshort and (c.gshort.endswith('::serialize_newtype_struct') or c.gshort.endswith('::serialize_element')):
                        names.update(f for f in fields if f.isdigit())
            out[a] = {'kind': 'derived', 'fields': fields, 'serialised': sorted(names & set(fields)), 'omitted': sorted(set(fields) - names)}
        elif ims:
            # hand-written: fields read anywhere in the reach of the impl's serialize fns
            fns = {}
            for im in ims:
                fn = prog.fns.get(im['fns'].get('serialize'))
                if fn is not None:
                    fns.update(prog.reach([fn]))
            rd = {f for f in fields if readers(prog, a, f, list(fns.values()))}
            out[a] = {'kind': 'hand', 'fields': fields, 'serialised': sorted(rd), 'omitted': sorted(set(fields) - rd)}
        else:
            out[a] = {'kind': 'none', 'fields': fields, 'serialised': [], 'omitted': list(fields)}
    # ADTs without their own impl are written by a container's hand-written impl: fields read in that reach
    hand_reach = {}
    for a, info in out.items():
        if info['kind'] == 'hand':
            for im in ser_impls(prog, a):
                fn = prog.fns.get(im['fns'].get('serialize'))
                if fn is not None:
                    hand_reach.update(prog.reach([fn]))
    for a, info in out.items():
        if info['kind'] == 'none':
            rd = {f for f in info['fields'] if readers(prog, a, f, list(hand_reach.values()))}
            if rd:
                info['kind'] = 'via-parent'
                info['serialised'] = sorted(rd)
                info['omitted'] = sorted(set(info['fields']) - rd)
    return out


def run(ctx):
    r1(ctx)
    r2_r3_r4(ctx)
    r2_reset_unconditional(ctx)
    r4_absent_fields(ctx)
    r5(ctx)
    from rules import atoms
    atoms.memory_write(ctx, 'R5')
    r6(ctx)
    # evidence (c) for CachedBlock.fee_rates: the recompute arm yields what the insertion-time cache held —
    # same fee computation, same transaction order, same selection window (shared with C15.R2/R3)
    from sa.engine import SubCtx
    from rules import c15
    c15.run(SubCtx(ctx, {'R2': 'R1c', 'R3': 'R1c'}))


def r1(ctx):
    prog = ctx.prog
    cov = coverage(prog)
    ctx.floor('R1', 'state ADTs (structs) examined', len(cov), 28)
    spec = json.load(open(SPEC)) if os.path.exists(SPEC) else {'fields': []}
    table_ = {(x['adt'], x['field']): x for x in spec['fields']}
    n_omitted = 0
    for a, info in sorted(cov.items()):
        if info['kind'] == 'none':
            # a struct in the state with no serialiser at all and not written by a parent: only legitimate for types behind skipped fields
            pass
        for f in info['omitted']:
            n_omitted += 1
            key = 'omitted:%s.%s' % (a.rsplit('::', 1)[-1], f)
            ent = table_.get((a, f))
            if ent is None:
                ctx.bad('R1', key, prog.adts[a]['file'] + ':%d' % prog.adts[a]['line'],
                        'field `%s` of %s is not written by the serialiser and is not in the reviewed table of derived fields: its value is lost at every upgrade' % (f, a))
                continue
            ok, why = check_evidence(ctx, prog, a, f, ent)
            if ok:
                ctx.ok('R1', key, prog.adts[a]['file'] + ':%d' % prog.adts[a]['line'], 'omitted field is %s: %s' % (ent['kind'], why))
            else:
                ctx.bad('R1', key, prog.adts[a]['file'] + ':%d' % prog.adts[a]['line'],
                        'field `%s` of %s is not serialised and %s' % (f, a, why))
    ctx.floor('R1', 'omitted fields examined', n_omitted, 9)
    # stale table rows
    for (a, f), ent in table_.items():
        if a in cov and f not in cov[a]['omitted']:
            ctx.ok('R1', 'now-serialised:%s.%s' % (a.rsplit('::', 1)[-1], f), '', 'table row is stale: the field is serialised now (harmless)', nontrivial=False)
    # memory ids pairwise distinct
    ids = {k: v for k, v in prog.consts.items() if k.startswith('ic_btc_canister::memory::') and 'MemoryId' in v.get('ty', '')}
    vals = [v['s'] for v in ids.values()]
    ctx.check(len(ids) >= 8 and len(set(vals)) == len(vals), 'R1', 'memory-ids-distinct', '', '%d MemoryId constants, pairwise distinct' % len(ids), 'MemoryId constants collide: %s' % ids)


def check_evidence(ctx, prog, adt, field, ent):
    kind = ent['kind']
    if kind == 'stable':
        df = prog.fn(ent['default_fn'], required=False)
        if df is None:
            return False, 'its default fn %s does not exist' % ent['default_fn']
        ctx.touch(df)
        r = ex(prog, df).local(0)
        want = P.either(P.call('ic_stable_structures::btreemap::BTreeMap::init', P.call(ent['memory_fn'])),
                        P.call('ic_stable_structures::btreemap::BTreeMap::init', P.has(P.call(ent['memory_fn']))))
        if not want(r):
            return False, 'its default fn %s does not re-attach StableBTreeMap::init(%s()): %s' % (ent['default_fn'], ent['memory_fn'], show(r))
        # the deserialiser of the owner calls the default fn
        cs = prog.callers(ent['default_fn'])
        if not any('Deserialize' in c.fn.short or 'Visitor' in c.fn.short for c in cs):
            return False, 'the deserialiser of %s does not call %s' % (adt, ent['default_fn'])
        mf = prog.fn(ent['memory_fn'], required=False)
        if mf is None:
            return False, 'memory accessor %s missing' % ent['memory_fn']
        cl = [c for c in prog.children(mf)]
        ids = [x for k in [mf] + cl for x in walk(ex(prog, k).local(0)) if x[0] == 'item' and x[1].startswith('ic_btc_canister::memory::')]
        if not any(i[1].endswith(ent['memory_id']) for i in ids):
            return False, '%s does not use MemoryId %s' % (ent['memory_fn'], ent['memory_id'])
        return True, 're-attached by %s from %s (MemoryId %s)' % (ent['default_fn'].rsplit('::', 1)[-1], ent['memory_fn'].rsplit('::', 1)[-1], ent['memory_id'])
    if kind == 'rebuilt':
        pu = prog.fn('ic_btc_canister::post_upgrade', required=False)
        if pu is None:
            return False, 'post_upgrade not found'
        reach = prog.reach([pu])
        hits = [pat for pat in ent['rebuilt_by'] if any(glob_any(f.short, [pat]) for f in reach.values())]
        if len(hits) != len(ent['rebuilt_by']):
            return False, 'post_upgrade no longer reaches %s, which rebuilds it' % sorted(set(ent['rebuilt_by']) - set(hits))
        # the rebuilding function really writes the field
        ws = {prog.root_of(w.fn).short for w in writers(prog, adt, field)}
        if ent.get('writer') and not any(glob_any(w, [ent['writer']]) for w in ws):
            from sa.dataflow import aggregates
            ag = {prog.root_of(f).short for f, _, _ in aggregates(prog, adt)}
            if not any(glob_any(w, [ent['writer']]) for w in ag):
                return False, 'its declared rebuilder %s does not write it (writers: %s)' % (ent['writer'], sorted(ws))
        return True, 'rebuilt on the post_upgrade path by %s' % ent['rebuilt_by']
    if kind == 'optional':
        a = prog.adts[adt]
        ty = [f['ty'] for f in a['variants'][0]['fields'] if f['name'] == field][0]
        if not ty.startswith('core::option::Option<'):
            return False, 'it is declared optional-with-fallback but its type is %s' % ty
        rd = {prog.root_of(r.fn).short for r in readers(prog, adt, field)}
        extra = [r for r in rd if not glob_any(r, ent['readers'])]
        if extra:
            return False, 'it has reader(s) %s outside the reviewed set (each reader needs a recompute arm for None)' % extra
        fb = prog.fn(ent['fallback_in'], required=False)
        if fb is None:
            return False, 'fallback function %s missing' % ent['fallback_in']
        # the fallback function branches on the accessor's Option and calls the recompute function on None
        calls = [c for c in fb.calls() if not c.cleanup and c.matches(ent['recompute'])]
        if not calls:
            return False, '%s no longer recomputes via %s when the value is absent' % (ent['fallback_in'], ent['recompute'])
        conds = cond_exprs(prog, fb, calls[0].bb)
        if not any(c[0] == 'is' and 'None' in c[2] for c in conds):
            return False, 'the recompute call in %s is not on the None arm' % ent['fallback_in']
        return True, 'Option with recompute arm in %s' % ent['fallback_in'].rsplit('::', 1)[-1]
    if kind == 'closure-default':
        df = prog.fn(ent['default_fn'], required=False)
        cs = prog.callers(ent['default_fn']) if df else []
        if df is None or not any('Deserialize' in c.fn.short or 'Visitor' in c.fn.short for c in cs):
            return False, 'its default fn %s is not called by the deserialiser' % ent['default_fn']
        return True, 'non-data field (predicate) restored by %s' % ent['default_fn'].rsplit('::', 1)[-1]
    return False, 'is listed with unknown evidence kind %s' % kind


def r2_r3_r4(ctx):
    prog = ctx.prog
    pre = ctx.fn('R2', 'ic_btc_canister::pre_upgrade')
    post = ctx.fn('R2', 'ic_btc_canister::post_upgrade')
    if pre:
        cl = [c for c in prog.children(pre) if c.kind == 'Closure']
        ok = False
        for k in cl:
            ctx.touch(k)
            g = cfg(k)
            rs = [c for c in k.calls_to('ic_btc_canister::reset_syncing_state') if not c.cleanup]
            iw = [c for c in k.calls() if not c.cleanup and c.matches('ciborium::ser::into_writer')]
            if rs and iw and g.dominates(rs[0].bb, iw[0].bb):
                ok = True
        ctx.check(ok, 'R2', 'pre:reset-before-serialise', pre, 'pre_upgrade resets the fetch state before the state is serialised', 'pre_upgrade does not reset the fetch state before serialising')
    if post:
        g = cfg(post)
        e = ex(prog, post)
        ss = [c for c in post.calls_to('ic_btc_canister::set_state') if not c.cleanup]
        ctx.saw_calls(len(post.calls()))
        if not ss:
            ctx.unknown('R2', 'post:set_state', post, 'set_state call not found in post_upgrade')
            return
        # reset after set_state on every path to return
        wsm = [c for c in post.calls_to('ic_btc_canister::with_state_mut') if not c.cleanup]
        resetters, refreshers = [], []
        for c in wsm:
            for cid in c.closure_args():
                k = prog.fns.get(cid)
                if k is None:
                    continue
                ctx.touch(k)
                gk = cfg(k)
                rs = [x for x in k.calls_to('ic_btc_canister::reset_syncing_state') if not x.cleanup]
                if rs and gk.all_paths_pass(0, [rs[0].bb], exits=return_blocks(k)):
                    resetters.append(c)
                rf = [x for x in k.calls_to('ic_btc_canister::unstable_blocks::GenericUnstableBlocks::refresh_tip_depths_cache') if not x.cleanup]
                if rf and gk.all_paths_pass(0, [rf[0].bb], exits=return_blocks(k)):
                    refreshers.append(c)
        rets = return_blocks(post)
        good = bool(resetters) and g.dominates(ss[0].bb, resetters[0].bb) and g.all_paths_pass(ss[0].bb, [resetters[0].bb], exits=rets)
        ctx.check(good, 'R2', 'post:reset-after-restore', resetters[0] if resetters else post, 'post_upgrade resets the fetch state on every path after the state is restored',
                  'post_upgrade does not reset the fetch state on every path after set_state')
        good = bool(refreshers) and g.all_paths_pass(ss[0].bb, [refreshers[0].bb], exits=rets)
        ctx.check(good, 'R2', 'post:tip-depths-refreshed', refreshers[0] if refreshers else post, 'the tip-depth cache is rebuilt on every path after the restore', 'tip-depth cache is not rebuilt after the restore')
        # R3: cache re-attachment
        desc = prog.descendants(post)
        new_fmt = [k for k in desc if any(c.matches('ic_btc_canister::state::GenericState::replace_unstable_blocks_cache') for c in k.calls())]
        old_fmt = [k for k in desc if any(c.matches('ic_btc_canister::blocktree::BlockTree::into_cached') for c in k.calls())]
        good = False
        if new_fmt:
            k = new_fmt[0]
            gk = cfg(k)
            rp = [c for c in k.calls_to('ic_btc_canister::state::GenericState::replace_unstable_blocks_cache') if not c.cleanup]
            good = gk.all_paths_pass(0, [rp[0].bb], exits=return_blocks(k))
            arg = ex(prog, k).operand(rp[0].args[1])
            good = good and P.call('ic_btc_canister::unstable_blocks::blocks_cache::BlocksCacheInStableMem::new', P.anything, P.call('ic_btc_canister::memory::get_unstable_blocks_memory'))(arg)
        # the closure's result feeds set_state
        st_arg = e.operand(ss[0].args[0])
        feeds = P.has(P.call('core::result::Result::map'))(st_arg) or P.has(P.call('core::result::Result::expect'))(st_arg)
        ctx.check(good and feeds, 'R3', 'new-format:cache-reattached', new_fmt[0] if new_fmt else post,
                  'the restored state gets a BlocksCacheInStableMem on the unstable-blocks memory before it is published', 'the restored state is published with the placeholder cache (it panics on first use)')
        ctx.check(bool(old_fmt), 'R3', 'old-format:into_cached', old_fmt[0] if old_fmt else post, 'the old-format path builds the cached tree with into_cached', 'old-format path does not attach a cache')
        # R4
        sc = [c for c in post.calls_to('ic_btc_canister::api::set_config::set_config_no_verification') if not c.cleanup]
        good = bool(sc) and g.dominates(ss[0].bb, sc[0].bb) and P.has(P.param('config_update'))(e.operand(sc[0].args[0]))
        ctx.check(good, 'R4', 'config-after-restore', sc[0] if sc else post, 'the config argument is applied after the state is restored', 'config argument is not applied after set_state')
        if sc:
            conds = cond_exprs(prog, post, sc[0].bb)
            ctx.check(P.exactly(conds, [P.is_(P.param('config_update'), 'Some')]), 'R4', 'config-iff-given', sc[0], 'applied exactly when an argument was given', 'config application condition: %s' % fmt_conds(conds))
    f = ctx.fn('R4', 'ic_btc_canister::api::set_config::set_config_no_verification')
    if f:
        req = prog.adts.get('ic_btc_interface::SetConfigRequest')
        names = [x['name'] for x in req['variants'][0]['fields']] if req else []
        fns = [f] + prog.descendants(f)
        missing = [n for n in names if not readers(prog, 'ic_btc_interface::SetConfigRequest', n, fns)]
        ctx.check(bool(names) and not missing, 'R4', 'set_config-exhaustive', f, 'set_config_no_verification reads all %d fields of SetConfigRequest' % len(names),
                  'set_config_no_verification ignores field(s) %s of SetConfigRequest' % missing)


def inputs_survive_upgrades(ctx, rule, roots, who, floor=6):
    """every state field read in REACH(roots) is carried across an upgrade: serialised, or listed in the
    derived-field table with re-checked evidence (stable-memory backed / rebuilt / optional with fallback)"""
    prog = ctx.prog
    reach = prog.reach(list(roots))
    cov = coverage(prog)
    spec = json.load(open(SPEC))['fields'] if os.path.exists(SPEC) else []
    evid = {(x['adt'], x['field']) for x in spec}
    n, lost = 0, 0
    for adt, info in sorted(cov.items()):
        for f in info['fields']:
            if not readers(prog, adt, f, list(reach.values())):
                continue
            n += 1
            if f in info['omitted'] and (adt, f) not in evid:
                lost += 1
                ctx.bad(rule, 'input-lost-at-upgrade:%s.%s' % (adt.rsplit('::', 1)[-1], f), prog.adts[adt]['file'] + ':%d' % prog.adts[adt]['line'],
                        'field `%s` of %s is read by %s but is not carried across an upgrade: after post_upgrade they compute on a default value' % (f, adt, who))
    ctx.floor(rule, 'state fields read by ' + who, n, floor)
    if not lost:
        ctx.ok(rule, 'inputs-survive-upgrades', '', 'all %d state fields read by %s are serialised (or backed by stable memory / rebuilt)' % (n, who))


def r2_reset_unconditional(ctx):
    """the reset the upgrade hooks rely on clears the fetch mutex and the partial reply on every path —
    a request abandoned by the upgrade is abandoned whatever the configuration says"""
    prog = ctx.prog
    f = ctx.fn('R2', 'ic_btc_canister::reset_syncing_state')
    if not f:
        return
    g = cfg(f)
    rets = return_blocks(f)
    for fld, want in (('is_fetching_blocks', lambda v: const_val(v) in (0, False)), ('response_to_process', lambda v: P.agg(variant='None')(v))):
        fa = field_assignments(prog, f, 'ic_btc_canister::state::SyncingState', fld)
        good = len(fa) >= 1 and all(want(x[2]) for x in fa) and any(not cond_exprs(prog, f, x[0]) and all(g.dominates(x[0], r) for r in rets) for x in fa)
        ctx.check(good, 'R2', 'reset-unconditional:' + fld, f.where(fa[0][0]) if fa else f,
                  'reset_syncing_state clears `%s` on every path' % fld,
                  'reset_syncing_state does not clear `%s` on every path (conditions: %s): an upgrade during a fetch can persist the fetch mutex / a stale partial reply'
                  % (fld, [fmt_conds(cond_exprs(prog, f, x[0])) for x in fa]))


def r4_absent_fields(ctx):
    """an upgrade argument that does not mention a setting leaves it alone: every state write of
    set_config_no_verification happens under `request.<field> is Some`"""
    prog = ctx.prog
    f = ctx.fn('R4', 'ic_btc_canister::api::set_config::set_config_no_verification')
    if not f:
        return
    st_adts = {norm(a) for a in state_adts(prog)}
    REQF = lambda x: isinstance(x, tuple) and x[0] == 'field' and x[3] == 'ic_btc_interface::SetConfigRequest'
    n = 0
    for k in [f] + prog.descendants(f):
        sites = []
        for bi, b in enumerate(k.blocks):
            if b.get('cleanup'):
                continue
            for st in b['stmts']:
                fp = _field_path(st['dst'], st_adts)
                if fp:
                    sites.append((bi, fp[-1]))
            t = b['term']
            if t['k'] == 'call' and norm((const_of(t['func']) or {}).get('resolved') or '').endswith('::set_stability_threshold'):
                sites.append((bi, 'GenericUnstableBlocks.stability_threshold'))
        for bi, fld in sites:
            n += 1
            conds = cond_exprs(prog, k, bi)
            guarded = [c for c in conds if c[0] == 'is' and tuple(c[2]) == ('Some',) and any(REQF(x) for x in walk(c[1]))]
            ctx.check(bool(guarded), 'R4', 'set_config-absent-field-untouched:' + fld, k.where(bi),
                      '`%s` is written only when the request carries a value for it' % fld,
                      '`%s` is written whether or not the request mentions it: an upgrade argument (or set_config call) that omits the setting resets it' % fld)
    ctx.floor('R4', 'state writes of set_config_no_verification', n, 6)


def r5(ctx):
    prog = ctx.prog
    pre = ctx.fn('R5', 'ic_btc_canister::pre_upgrade')
    post = ctx.fn('R5', 'ic_btc_canister::post_upgrade')
    if not (pre and post):
        return
    e1, e2 = ex(prog, pre), ex(prog, post)
    ws = [c for c in pre.calls() if not c.cleanup and c.matches('ic_btc_canister::memory::write')]
    rs = [c for c in post.calls() if not c.cleanup and c.gshort and c.gshort.endswith('Memory::read')]
    um = P.call('ic_btc_canister::memory::get_upgrades_memory')
    w = sorted((const_val(e1.operand(c.args[1])), show(e1.operand(c.args[2]))[:60]) for c in ws)
    r = sorted((const_val(e2.operand(c.args[1])), show(e2.operand(c.args[2]))[:60]) for c in rs)
    good = [x[0] for x in w] == [0, 4] and [x[0] for x in r] == [0, 4] and all(P.has(um)(e1.operand(c.args[0])) for c in ws) and all(P.has(um)(e2.operand(c.args[0])) for c in rs)
    ctx.check(good, 'R5', 'offsets', pre, 'writer and reader use offsets 0 (length) and 4 (bytes) of the upgrades memory', 'writer offsets %s, reader offsets %s' % (w, r))
    le_w = [c for c in pre.calls() if not c.cleanup and c.matches('core::num::to_le_bytes')]
    le_r = [c for c in post.calls() if not c.cleanup and c.matches('core::num::from_le_bytes')]
    lw = e1.operand(le_w[0].args[0]) if le_w else None
    good = bool(le_w) and bool(le_r) and P.cast(P.length(P.anything), 'u32')(lw)
    ctx.check(good, 'R5', 'length-encoding', le_w[0] if le_w else pre, 'length is a u32, little endian, on both sides', 'length encoding differs between pre_upgrade and post_upgrade')


# ---- R6: what the upgrade hooks themselves write -------------------------------------------------
# Everything the hooks write into the restored state, other than applying the explicit upgrade
# argument, must be transient or derived: a hook that also resets configuration, the fee cache or any
# other carried field makes the upgrade visible. Confirmed by reading; one line of reason each.
UPGRADE_WRITES = {
    'SyncingState.is_fetching_blocks': 'transient fetch mutex: an interrupted call will never complete (C13)',
    'SyncingState.response_to_process': 'transient partial reply of the interrupted fetch (C13); re-fetched',
    'GenericUnstableBlocks.tip_depths_cache': 'derived cache, rebuilt from the tree (serde default for older state)',
}


def _field_path(place, st_adts):
    out = []
    for e in place['p']:
        if isinstance(e, dict) and 'field' in e and 'of' in e and norm(e['of']) in st_adts:
            out.append('%s.%s' % (norm(e['of']).rsplit('::', 1)[-1], e['field']))
    return out


def upgrade_path_writes(prog, roots, stop):
    """(fn, line, 'Adt.field', how) for every write into a state ADT field in the workspace functions
    reachable from the upgrade hooks: direct assignments, call results stored into a field,
    assignments through a `&mut` alias of a field, and `&mut field` handed to a function outside the
    workspace (mem::take / replace / Option::take ...: the callee can overwrite it)."""
    st_adts = {norm(a) for a in state_adts(prog)}
    U = prog.reach(roots, dyn=True, stop=stop)
    out = []
    for f in U.values():
        if stop(f):
            continue
        alias = {}
        changed = True
        while changed:
            changed = False
            for b in f.blocks:
                for st in b['stmts']:
                    d, rv = st['dst'], st.get('rv') or {}
                    if d['p']:
                        continue
                    src = None
                    if 'ref' in rv and rv.get('mut'):
                        fp = _field_path(rv['ref'], st_adts)
                        base = alias.get(rv['ref']['l'])
                        src = (base or []) + fp if (fp or base) else None
                    elif 'use' in rv and place_of(rv['use']) and not place_of(rv['use'])['p']:
                        src = alias.get(place_of(rv['use'])['l'])
                    if src and alias.get(d['l']) != src:
                        alias[d['l']] = src
                        changed = True
        for bi, b in enumerate(f.blocks):
            if b.get('cleanup'):
                continue
            for st in b['stmts']:
                d = st['dst']
                fp = (alias.get(d['l']) or []) + _field_path(d, st_adts) if ('deref' in d['p'] or d['l'] not in alias) else _field_path(d, st_adts)
                if fp and (d['p']):
                    out.append((f, st.get('line'), fp[-1], 'assign'))
            t = b['term']
            if t['k'] != 'call':
                continue
            if t.get('dst') and t['dst']['p']:
                fp = (alias.get(t['dst']['l']) or []) + _field_path(t['dst'], st_adts)
                if fp:
                    out.append((f, t.get('line'), fp[-1], 'call-result'))
            callee = t.get('callee') if isinstance(t.get('callee'), str) else None
            cs = [c for c in f.calls() if c.bb == bi]
            external = bool(cs) and (cs[0].callee is None or cs[0].callee not in prog.fns)
            if external:
                for op in t['args']:
                    p = place_of(op)
                    if p and not p['p'] and p['l'] in alias and alias[p['l']]:
                        out.append((f, t.get('line'), alias[p['l']][-1], '&mut to ' + (cs[0].short or '?').rsplit('::', 2)[-1]))
    return out


def r6(ctx):
    prog = ctx.prog
    pre = ctx.fn('R6', 'ic_btc_canister::pre_upgrade')
    post = ctx.fn('R6', 'ic_btc_canister::post_upgrade')
    if not (pre and post):
        return

    def stop(f):
        it = f.impl_trait or ''
        return ('serde' in it or 'Deserialize' in f.short or '__Visitor' in f.short or '__FieldVisitor' in f.short
                or f.short.startswith('ic_btc_canister::api::set_config::set_config_no_verification'))
    ws = upgrade_path_writes(prog, [pre, post], stop)
    seen = {}
    for f, line, fld, how in ws:
        ctx.touch(f)
        seen.setdefault(fld, []).append((f, line, how))
    ctx.floor('R6', 'state fields written on the upgrade path', len(seen), 3)
    for fld, sites in sorted(seen.items()):
        f, line, how = sites[0]
        ctx.check(fld in UPGRADE_WRITES, 'R6', 'upgrade-writes:' + fld, '%s:%s' % (f.file, line),
                  'the upgrade hooks write `%s` (%s): %s' % (fld, how, UPGRADE_WRITES.get(fld, '')),
                  'the upgrade hooks overwrite `%s` (%s in %s) — a field that is carried across the upgrade is changed by the upgrade itself, '
                  'so the answers after the upgrade differ from those of a canister that was not upgraded' % (fld, how, f.short))
    # the re-attached block bodies are all kept: nothing on the upgrade path removes from the blocks cache
    U = prog.reach([pre, post], dyn=True, stop=stop)
    rm = [c for f in U.values() if not stop(f) for c in f.calls() if not c.cleanup and (c.gshort or '').endswith('BlocksCache::remove')]
    ctx.check(not rm, 'R6', 'upgrade-keeps-block-bodies', rm[0] if rm else post, 'no block body is removed from the stable-memory cache on the upgrade path',
              'the upgrade path removes block bodies from the stable-memory cache (%s): blocks still in the unstable tree lose their bodies, and the next pop / fee recomputation traps' % (rm[0].fn.short if rm else ''))
    for fld in ('SyncingState.is_fetching_blocks', 'SyncingState.response_to_process'):
        if fld not in seen:
            ctx.bad('R6', 'upgrade-writes:' + fld, post, 'the transient field `%s` is no longer reset on the upgrade path' % fld)


# plumbing between the interface and the analysed functions (rules/plumbing.py)
_run_before_plumbing = run


def run(ctx):
    _run_before_plumbing(ctx)
    from rules import plumbing
    plumbing.set_config_same_name(ctx, 'R4')
