"""Small helper functions that the property rules use as *atoms* of their tables (Depth arithmetic,
the sorted merge, the per-block delta, the memory writer, the block enumeration, the budget
predicate). A rule that matches `Depth::saturating_sub(a, b)` in a decision table says nothing if
`saturating_sub` itself computes something else; these rules pin the atoms. Each function takes
(ctx, rule) so that a property files the obligations under its own rule label."""
from sa import pat as P
from sa.cfg import cfg
from sa.expr import ex, show, walk, cond_exprs, const_val
from sa.util import table, describe_table, return_blocks, panic_blocks

BT = 'ic_btc_canister::blocktree::'


def depth_atoms(ctx, rule):
    """C03: the arithmetic the stability decision is written in"""
    prog = ctx.prog
    S0, O0 = P.field('0', P.param('self')), P.field('0', P.param('other'))
    for name, want, what in (
            (BT + 'Depth::saturating_sub', P.agg(variant=None, _0=P.call('core::num::saturating_sub', S0, O0)), 'Depth(self.0.saturating_sub(other.0))'),
            ('<' + BT + 'DifficultyBasedDepth as core::ops::arith::Sub>::sub', P.agg(variant=None, _0=P.binop('Sub', S0, O0)), 'DifficultyBasedDepth(self.0 - other.0)'),
            ('<' + BT + 'DifficultyBasedDepth as core::ops::arith::Add>::add', P.agg(variant=None, _0=P.binop('Add', S0, O0)), 'DifficultyBasedDepth(self.0 + other.0)'),
            ('<' + BT + 'Depth as core::ops::arith::Add>::add', P.agg(variant=None, _0=P.binop('Add', S0, O0)), 'Depth(self.0 + other.0)')):
        f = ctx.fn(rule, name)
        if not f:
            continue
        rows = table(prog, f)
        ctx.check(len(rows) == 1 and not rows[0][2] and want(rows[0][1]), rule, 'atom:' + name.split('blocktree::')[1].replace(' as core::ops::arith', ''), f,
                  '%s = %s' % (name.rsplit('::', 1)[-1], what), 'unexpected arithmetic: %s' % describe_table(rows))


def merge_order(ctx, rule):
    """C01/C06: MultiIter yields the smaller head first (ties: the second source), never drops or repeats"""
    prog = ctx.prog
    f = ctx.fn(rule, '<ic_btc_canister::multi_iter::MultiIter as core::iter::traits::iterator::Iterator>::next')
    if not f:
        return
    rows = table(prog, f)
    PA = P.call('*::peek', P.field('a', P.param('self')))
    PB = P.call('*::peek', P.field('b', P.param('self')))
    NA = P.call('*::next', P.field('a', P.param('self')))
    NB = P.call('*::next', P.field('b', P.param('self')))
    HA, HB = P.has(PA), P.has(PB)
    want = [
        (P.agg(variant='None'), [P.is_(PA, 'None'), P.is_(PB, 'None')]),
        (NB, [P.is_(PA, 'None'), P.is_(PB, 'Some')]),
        (NA, [P.is_(PA, 'Some'), P.is_(PB, 'None')]),
        (NA, [P.is_(PA, 'Some'), P.is_(PB, 'Some'), P.binop('Lt', HA, HB)]),
        (NB, [P.is_(PA, 'Some'), P.is_(PB, 'Some'), P.binop('Le', HB, HA)]),
    ]
    good = len(rows) == 5 and all(sum(1 for r in rows if v(r[1]) and P.exactly(r[2], cs)) == 1 for v, cs in want)
    ctx.check(good, rule, 'merge-order', f, 'MultiIter::next: the smaller head first, the other source when one is exhausted, None when both are',
              'merge table: %s' % describe_table(rows))


def _root_field(e):
    """name of the field of `self` a receiver expression starts from (entry/or_default/get_mut/expect chains)"""
    while isinstance(e, tuple):
        if e[0] == 'field' and P.param('self')(e[1]):
            return e[2]
        if e[0] == 'call' and e[2]:
            e = e[2][0]
        elif e[0] in ('field', 'downcast'):
            e = e[1]
        else:
            return None
    return None


def delta_bookkeeping(ctx, rule):
    """C08/C01: what the in-progress delta records per inserted / removed UTXO — the reverting readers
    can undo exactly this"""
    prog = ctx.prog
    D = 'ic_btc_canister::utxo_set::utxos_delta::UtxosDelta::'
    MUT = {'insert', 'remove'}
    want = {
        'insert': {('added_outpoints', 'insert', '-'), ('all_added_outpoints', 'insert', '-'), ('utxos', 'insert', '-')},
        'remove': {('all_added_outpoints', 'remove', '-'), ('utxos', 'remove', 'Some'), ('added_outpoints', 'remove', 'Some'),
                   ('removed_outpoints', 'insert', 'None'), ('all_removed_outpoints', 'insert', 'None'), ('utxos', 'insert', 'None')},
    }
    for name in ('insert', 'remove'):
        f = ctx.fn(rule, D + name)
        if not f:
            continue
        e = ex(prog, f)
        got = set()
        probe = P.call('*::remove', P.field('all_added_outpoints', P.param('self')), P.anything)
        for c in f.calls():
            if c.cleanup or not c.args:
                continue
            m = (c.short or '').rsplit('::', 1)[-1]
            if m not in MUT:
                continue
            fld = _root_field(e.operand(c.args[0]))
            if fld is None:
                continue
            conds = cond_exprs(prog, f, c.bb)
            tag = '-'
            for k in conds:
                if k[0] == 'is' and probe(k[1]):
                    tag = '|'.join(k[2])
            got.add((fld, m, tag))
        ctx.check(got == want[name], rule, 'delta-bookkeeping:' + name, f,
                  'UtxosDelta::%s updates %s' % (name, sorted(want[name])), 'UtxosDelta::%s updates %s, expected %s' % (name, sorted(got), sorted(want[name])))


def memory_write(ctx, rule):
    """C09: the writer of the upgrade region grows the memory by enough pages before writing"""
    prog = ctx.prog
    f = ctx.fn(rule, 'ic_btc_canister::memory::write')
    if not f:
        return
    e = ex(prog, f)
    g = cfg(f)
    grow = [c for c in f.calls() if not c.cleanup and (c.gshort or '').endswith('Memory::grow')]
    wr = [c for c in f.calls() if not c.cleanup and (c.gshort or '').endswith('Memory::write')]
    if len(grow) != 1 or len(wr) != 1:
        ctx.unknown(rule, 'memory-write', f, 'grow / write calls of memory::write not found (%d, %d)' % (len(grow), len(wr)))
        return
    PAGE = P.item('WASM_PAGE_SIZE')
    # exactly offset + len (exclusive end) and size * page, each only wrapped in the overflow check
    LAST = P.call('*::expect', P.call('core::num::checked_add', P.param('offset'), P.maybe_cast(P.call('*::len', P.param('bytes')))), P.anything)
    SIZE = P.call('*::expect', P.call('core::num::checked_mul', P.call('*::size', P.param('memory')), PAGE), P.anything)
    pages = e.operand(grow[0].args[1])
    okp = P.binop('Div', P.has(P.call('core::num::checked_add', P.binop('Sub', LAST, SIZE), P.binop('Sub', PAGE, P.const(1)))), PAGE)(pages)
    conds = cond_exprs(prog, f, grow[0].bb)
    okc = P.exactly(conds, [P.binop('Lt', SIZE, LAST)])
    rets = return_blocks(f)
    okw = all(g.dominates(wr[0].bb, r) for r in rets) and P.param('offset')(e.operand(wr[0].args[1])) and P.param('bytes')(e.operand(wr[0].args[2]))
    ctx.check(okp and okc and okw, rule, 'memory-write', f,
              'memory::write grows by ceil((offset + len - size) / page) pages exactly when the region is too small, then writes at `offset`',
              'memory::write: pages ok=%s, condition ok=%s (%s), write ok=%s' % (okp, okc, [show(c)[:80] for c in conds], okw))


def all_blocks_enumerated(ctx, rule):
    """C13: the initial request names every unstable block: the hash enumeration visits the root and
    every child subtree"""
    prog = ctx.prog
    f = ctx.fn(rule, BT + 'BlockTree::collect_hashes')
    gh = ctx.fn(rule, BT + 'BlockTree::get_hashes')
    ub = ctx.fn(rule, 'ic_btc_canister::unstable_blocks::get_block_hashes')
    st = ctx.fn(rule, 'ic_btc_canister::state::get_block_hashes')
    if not (f and gh and ub and st):
        return
    e = ex(prog, f)
    g = cfg(f)
    push = [c for c in f.calls() if not c.cleanup and c.matches('alloc::vec::Vec::push')]
    rec = [c for c in f.calls() if not c.cleanup and c.callee == f.id]
    ok = (len(push) == 1 and not cond_exprs(prog, f, push[0].bb) and P.has(P.call('*::block_hash', P.field('root', P.param('self'))))(e.operand(push[0].args[1]))
          and len(rec) == 1 and g.in_loop(rec[0].bb) is not None and P.param('hashes')(e.operand(rec[0].args[1])))
    it = [c for c in f.calls() if not c.cleanup and c.matches('core::slice::iter') and P.field('children', P.param('self'))(e.operand(c.args[0]))]
    # nothing but the plain slice iteration between the children and the recursion (no skip / take / filter)
    names = {(c.gshort or c.short or '?').rsplit('::', 1)[-1] for c in f.calls() if not c.cleanup}
    ok = ok and len(it) == 1 and names <= {'iter', 'into_iter', 'next', 'block_hash', 'push', 'collect_hashes', 'deref', 'clone'}
    okc = any(c.callee == f.id and not c.cleanup for c in gh.calls()) and \
        P.call(BT + 'BlockTree::get_hashes', P.field('tree', P.param()))(ex(prog, ub).local(0)) and \
        P.call('ic_btc_canister::unstable_blocks::get_block_hashes', P.field('unstable_blocks', P.param()))(ex(prog, st).local(0))
    ctx.check(ok and okc, rule, 'all-blocks-enumerated', f, 'get_block_hashes = the root\'s hash followed by every child subtree\'s hashes (whole tree)',
              'the block enumeration behind the initial request does not visit the whole tree')


def budget_predicate(ctx, rule):
    """C08: the slicing predicate compares the message's instruction counter with a positive constant
    (it is false at the start of a round, so every round makes progress)"""
    prog = ctx.prog
    f = ctx.fn(rule, 'ic_btc_canister::utxo_set::default_should_time_slice')
    if not f:
        return
    ok = False
    for k in prog.children(f):
        r = ex(prog, k).local(0)
        if r[0] == 'bin' and r[1] in ('Le', 'Lt'):
            lim, ctr = r[2], r[3]
            v = lim[2] if lim[0] == 'item' else const_val(lim)
            ok = isinstance(v, int) and v >= 100_000_000 and P.call('ic_btc_canister::runtime::inc_performance_counter')(ctr)
    ctx.check(ok, rule, 'budget-predicate', f, 'should_time_slice = (instruction counter of this message >= a large positive constant)',
              'the default slicing predicate is not "instruction counter >= constant"')
    nb = ctx.fn(rule, 'ic_btc_canister::utxo_set::IngestingBlock::new')
    if nb:
        r = ex(prog, nb).local(0)
        flds = dict(r[4]) if r[0] == 'agg' else {}
        okn = all(const_val(flds.get(n)) == 0 for n in ('next_tx_idx', 'next_input_idx', 'next_output_idx')) and P.param('block')(flds.get('block')) and \
            P.call('*::default')(flds.get('utxos_delta'))
        ctx.check(okn, rule, 'resume-state-initial', nb, 'a fresh resume state starts at transaction 0, input 0, output 0 with an empty delta', 'IngestingBlock::new = %s' % show(r)[:200])


def depth_recursions(ctx, rule):
    """C03: the two depth measures the stability decision compares — accumulated difficulty and block
    count of the deepest descendant chain — and where a block's difficulty comes from"""
    prog = ctx.prog
    from sa.util import find_locals, is_var
    for name, unit in (('difficulty_based_depth', P.call('*::DifficultyBasedDepth::new', P.call('*::difficulty', P.field('root', P.param('self'))))),
                       ('depth', P.call('*::Depth::new', P.const(1)))):
        f = ctx.fn(rule, BT + 'BlockTree::' + name)
        if not f:
            continue
        NEXT = P.call('*::next', P.has(P.call('core::slice::iter', P.field('children', P.param('self')))))
        acc = find_locals(prog, f, lambda e, l: P.call('*::new', P.const(0))(e), lambda e, l: P.call('max', P.anything, P.anything)(e))
        ok = False
        if len(acc) == 1:
            A = is_var(acc[0])
            rows = table(prog, f, acc[0])
            rec = P.call(BT + 'BlockTree::' + name, P.has(P.downcast('Some', NEXT)))
            step = [r for r in rows if (P.call('max', rec, A)(r[1]) or P.call('max', A, rec)(r[1])) and P.exactly(r[2], [P.is_(NEXT, 'Some')])]
            fin = [r for r in rows if P.call('*::add', A, unit)(r[1]) and P.exactly(r[2], [P.is_(NEXT, 'None')])]
            ret = table(prog, f)
            ok = len(rows) == 3 and len(step) == 1 and len(fin) == 1 and len(ret) == 1 and A(ret[0][1])
            names = {(c.gshort or c.short or '?').rsplit('::', 1)[-1] for c in f.calls() if not c.cleanup}
            ok = ok and names <= {'iter', 'into_iter', 'next', 'new', 'max', 'add', 'difficulty', name, 'deref', 'clone'}
        ctx.check(ok, rule, 'atom:BlockTree::' + name, f, '%s = (max over all children of the child\'s %s) + %s' % (name, name, 'difficulty(root)' if name != 'depth' else '1'),
                  '%s is not "maximum over all children plus the root\'s own contribution"' % name)
    nc = ctx.fn(rule, BT + 'CachedBlock::new_cached')
    if nc:
        aggs = [ex(prog, nc).rvalue(st['rv']) for b in nc.blocks for st in b['stmts'] if (st.get('rv') or {}).get('agg') == 'adt' and st['rv']['adt'].endswith('blocktree::CachedBlock')]
        d = dict(aggs[0][4]).get('difficulty') if len(aggs) == 1 else None
        ok = d is not None and P.call('ic_btc_types::Block::difficulty', P.param('block'), P.call('*::network', P.has(P.param('cache'))))(d)
        ctx.check(ok, rule, 'atom:block-difficulty-provenance', nc, 'a cached block\'s difficulty = Block::difficulty(block, network of the cache)', 'CachedBlock.difficulty = %s' % (show(d)[:160] if d else aggs))
    for name, want in (('ic_btc_types::Block::difficulty', P.call('ic_btc_types::Block::target_difficulty', P.param('network'), P.call('*::target', P.call('*::header', P.param('self'))))),
                       ('ic_btc_types::Block::target_difficulty', P.call('*::Target::difficulty', P.param('target'), P.call('*::Params::new', P.call('*::into_bitcoin_network', P.param('network')))))):
        f = ctx.fn(rule, name)
        if f:
            rows = table(prog, f)
            # test builds (cargo feature mock_difficulty) put an override in front; production rows only
            mock = lambda c: any(isinstance(x, tuple) and x[0] == 'field' and x[2] == 'mock_difficulty' for x in walk(c[1] if c[0] == 'is' else c))
            rows = [(b, v, [c for c in cs if not mock(c)]) for b, v, cs in rows if not any(isinstance(x, tuple) and x[0] == 'field' and x[2] == 'mock_difficulty' for x in walk(v))]
            ctx.check(len(rows) == 1 and not rows[0][2] and want(rows[0][1]), rule, 'atom:' + name.split('::', 1)[1], f,
                      '%s is the target\'s difficulty under the network\'s parameters' % name.rsplit('::', 1)[-1], '%s = %s' % (name, describe_table(rows)))


def utxo_tiers(ctx, rule):
    """C01 (oversized scripts): the stable UTXO store has three tiers chosen by encoded size; insert,
    get and remove must agree on the tiers (sibling agreement) and insert must choose by the two bounds"""
    prog = ctx.prog
    U = 'ic_btc_canister::utxo_set::utxos::Utxos::'
    tiers = ('small_utxos', 'medium_utxos', 'large_utxos')
    seen = {}
    for name in ('insert', 'get', 'remove'):
        f = ctx.fn(rule, U + name)
        if not f:
            return
        e = ex(prog, f)
        got = {}
        for c in f.calls():
            if c.cleanup or not c.args or (c.short or '').rsplit('::', 1)[-1] != name:
                continue
            fld = _root_field(e.operand(c.args[0]))
            if fld in tiers:
                got[fld] = c
        seen[name] = got
        ctx.check(set(got) == set(tiers), rule, 'utxo-tiers:' + name, f, 'Utxos::%s consults all three tiers (small, medium, large)' % name,
                  'Utxos::%s consults only %s: outputs stored in another tier are lost to it' % (name, sorted(got)))
    ins = prog.fn(U + 'insert', required=False)
    if ins and set(seen.get('insert', {})) == set(tiers):
        LEN = P.has(P.call('*::to_bytes', P.param('value')))
        S, M = P.item('UTXO_VALUE_MAX_SIZE_SMALL'), P.item('UTXO_VALUE_MAX_SIZE_MEDIUM')
        cs = {t: cond_exprs(prog, ins, seen['insert'][t].bb) for t in tiers}
        ok = (P.exactly(cs['small_utxos'], [P.binop('Le', LEN, S)]) and
              P.exactly(cs['medium_utxos'], [P.binop('Lt', S, LEN), P.binop('Le', LEN, M)]) and
              P.exactly(cs['large_utxos'], [P.binop('Lt', S, LEN), P.binop('Lt', M, LEN)]))
        ctx.check(ok, rule, 'utxo-tiers:insert-bounds', ins, 'insert: encoded size <= SMALL -> small, <= MEDIUM -> medium, else large',
                  'tier choice of Utxos::insert: %s' % {t: [show(c)[:60] for c in v] for t, v in cs.items()})


def chain_with_tip(ctx, rule):
    """C06/C10/C13: the chain from the anchor to a named block and that block's successors (the page
    walk replays it; the duplicate test inspects the successors)"""
    prog = ctx.prog
    f = ctx.fn(rule, BT + 'BlockTree::get_chain_with_tip_reverse')
    gc = ctx.fn(rule, BT + 'BlockTree::get_child_blocks')
    w = ctx.fn(rule, BT + 'BlockTree::get_chain_with_tip')
    if not (f and gc and w):
        return
    e = ex(prog, f)
    g = cfg(f)
    rows = table(prog, f)
    HIT = P.binop('Eq', P.call('*::block_hash', P.field('root', P.param('self'))), P.param('tip'))
    MISS = P.binop('Ne', P.call('*::block_hash', P.field('root', P.param('self'))), P.param('tip'))
    NEXT = P.call('*::next', P.has(P.call('core::slice::iter', P.field('children', P.param('self')))))
    REC = P.call(BT + 'BlockTree::get_chain_with_tip_reverse', P.has(P.downcast('Some', NEXT)), P.param('tip'))
    here = [r for r in rows if P.agg(variant='Some', _0=P.agg(_1=P.call(BT + 'BlockTree::get_child_blocks', P.param('self'))))(r[1]) and P.exactly(r[2], [HIT])]
    none = [r for r in rows if P.agg(variant='None')(r[1]) and P.exactly(r[2], [MISS, P.is_(NEXT, 'None')])]
    below = [r for r in rows if P.agg(variant='Some')(r[1]) and P.has(REC)(r[1]) and P.exactly(r[2], [MISS, P.is_(NEXT, 'Some'), P.is_(REC, 'Some')])]
    push = [c for c in f.calls() if not c.cleanup and c.matches('alloc::vec::Vec::push') and P.field('root', P.param('self'))(e.operand(c.args[1]))]
    names = {(c.gshort or c.short or '?').rsplit('::', 1)[-1] for c in f.calls() if not c.cleanup}
    ok = len(rows) == 3 and len(here) == 1 and len(none) == 1 and len(below) == 1 and len(push) == 1 and g.dominates(push[0].bb, below[0][0]) and \
        not ({'skip', 'take', 'filter', 'rev', 'step_by', 'take_while', 'skip_while'} & names)
    # the vec of the hit row holds the root
    okroot = any((st.get('rv') or {}).get('agg') == 'array' and P.field('root', P.param('self'))(e.rvalue(st['rv'])[4][0][1]) for b in f.blocks for st in b['stmts'])
    r = ex(prog, gc).local(0)
    okc = P.call('*::collect', P.call('*::map', P.call('core::slice::iter', P.field('children', P.param('self'))), P.anything))(r) and \
        any(P.field('root', P.param())(ex(prog, k).local(0)) for k in prog.children(gc))
    okw = False
    for k in prog.children(w):
        v = ex(prog, k).local(0)
        okw = okw or (P.agg(_0=P.agg(first=P.call('*::unwrap', P.call('*::pop', P.anything)), successors=P.anything), _1=P.anything)(v)
                      and any(c.matches('*::reverse') and not c.cleanup for c in k.calls()))
    ctx.check(ok and okroot and okc and okw, rule, 'chain-with-tip', f,
              'get_chain_with_tip: depth-first over all children; the named block\'s chain from the root and all of its children as successors',
              'get_chain_with_tip shape not recognised / changed (search ok=%s, root ok=%s, children ok=%s, wrapper ok=%s): %s' % (ok, okroot, okc, okw, describe_table(rows)))


def tree_search(ctx, rule):
    """C14/C10: where a block hangs in the tree — BlockTree::find_mut searches the whole tree depth-first and
    reports the depth (root = 0, +1 per level); a parent on a side branch is found like one on the best chain"""
    prog = ctx.prog
    h = ctx.fn(rule, BT + 'BlockTree::find_mut::find_mut_helper')
    w = ctx.fn(rule, BT + 'BlockTree::find_mut')
    if not (h and w):
        return
    e = ex(prog, h)
    rows = table(prog, h)
    T = P.param('block_tree')
    HIT = P.binop('Eq', P.call('*::block_hash', P.field('root', T)), P.param('blockhash'))
    MISS = P.binop('Ne', P.call('*::block_hash', P.field('root', T)), P.param('blockhash'))
    NEXT = P.call('*::next', P.has(P.call(['core::slice::iter_mut', 'core::slice::iter'], P.field('children', T))))
    REC = P.call(BT + 'BlockTree::find_mut::find_mut_helper', P.has(P.downcast('Some', NEXT)), P.param('blockhash'), P.binop('Add', P.param('depth'), P.const(1)))
    here = [r for r in rows if P.agg(variant='Some', _0=P.agg(_0=T, _1=P.param('depth')))(r[1]) and P.exactly(r[2], [HIT])]
    none = [r for r in rows if P.agg(variant='None')(r[1]) and P.exactly(r[2], [MISS, P.is_(NEXT, 'None')])]
    below = [r for r in rows if REC(r[1]) and P.exactly(r[2], [MISS, P.is_(NEXT, 'Some'), P.is_(REC, 'Some')])]
    names = {(c.gshort or c.short or '?').rsplit('::', 1)[-1] for c in h.calls() if not c.cleanup}
    ok = len(rows) == 3 and len(here) == 1 and len(none) == 1 and len(below) == 1 and not ({'skip', 'take', 'filter', 'rev', 'step_by', 'take_while', 'skip_while', 'last', 'first'} & names)
    r = ex(prog, w).local(0)
    okw = P.call(BT + 'BlockTree::find_mut::find_mut_helper', P.param('self'), P.param('blockhash'), P.const(0))(r)
    ctx.check(ok and okw, rule, 'tree-search', h, 'find_mut: depth-first over all children from depth 0; the first subtree whose root has the hash, with its depth',
              'find_mut shape not recognised / changed (helper ok=%s, wrapper ok=%s): %s' % (ok, okw, describe_table(rows)))
