"""C08 — Time-sliced ingestion is invisible and schedule independent (DESIGN §5 C08)."""
from sa import pat as P
from sa.cfg import cfg
from sa.expr import ex, show, walk, cond_exprs, const_val
from sa.util import (gate, table, fmt_conds, describe_table, the_closure, require_callers, require_writers, field_assignments,
                     cond_variants, return_blocks, glob_any, local_assignments, panic_blocks)
from sa.dataflow import accesses, writers, readers
from rules.c14 import exported

EXPLANATION = (
    "Decides structurally: R1 raw-store confinement — every function that reads the stable UTXO stores (utxos, "
    "address_utxos, balances) either also consults the in-progress block's delta (a reverting accessor), or is an "
    "ingestion writer, or is a raw reader; raw readers must not be reachable from an API answer (metrics gauges are the "
    "listed exception); R1b the reverting accessors undo the delta in the right direction (get_balance adds back removed "
    "and subtracts added values; get_utxo returns the delta's copy for a removed outpoint and None for an added one; "
    "get_address_outpoints filters added outpoints out of the stable scan and merges removed ones back); R2 phase "
    "gating — the heartbeat reaches fetch / process / fee computation only on the Done(false) arm; insert_block is "
    "reachable only from the response processor; R3 resume-state discipline — who writes ingesting_block, a Paused "
    "return always stores the resume state built from the current indices, the loop skips exactly next_tx_idx "
    "transactions, per-transaction indices are reset to 0 after a completed transaction, input/output loops skip "
    "exactly their start index and pause before touching the element, ingest_block asserts no block is in progress; "
    "R4 every Slicing result is consumed by a branch; R5 the in-progress delta records every index / balance write of the "
    "ingestion writers under the same condition, so the reverting accessors can undo all of it; R6 the header of a stabilising "
    "block is stored before its ingestion starts and the stable height advances exactly on completion, independent of slicing. "
    "Does NOT decide: equality of answers at every pause point for every block shape, finiteness of the number of "
    "rounds, equality of the final state with an unsliced run.")
RULES = {
    'R1': 'READERS of the stable stores: raw readers ∩ REACH(API endpoints) = ∅',
    'R1b': 'direction of the delta revert in the three reverting accessors',
    'R2': 'heartbeat phase gating on the Slicing result; CALLERS(insert_block)',
    'R3': 'WRITERS(ingesting_block); Paused ⇒ resume state stored; resume indices; slicing predicate and fresh resume state as atoms',
    'R4': 'Slicing results feed a switch at every call site',
    'R5': 'delta completeness: index/balance/delta written together in the ingestion writers (= C01.R4); UtxosDelta insert/remove bookkeeping per field and arm',
    'R6': 'slicing-independent bookkeeping: header stored before ingestion starts (= C03.R2), height advanced on completion (= C03.R1)',
    'R7': 'the header endpoint reads the stable store strictly below the stable height: the in-progress block is served from the unstable blocks (= C07.R1)',
}
ASSUMPTIONS = ['the metrics endpoint reports raw diagnostic gauges (documented); it is excluded from R1']
US = 'ic_btc_canister::utxo_set::UtxoSet'
STORES = ('utxos', 'address_utxos', 'balances')


def run(ctx):
    r1(ctx)
    r1b(ctx)
    r2(ctx)
    r3(ctx)
    r4(ctx)
    # R5: the delta the reverting accessors undo must be complete: every index / balance write of the
    # ingestion writers is recorded in the in-progress delta under the same condition (shared with C01.R4)
    from sa.engine import SubCtx
    from rules import c01, c03
    c01.r3_r4_r5(SubCtx(ctx, {'R4': 'R5'}))
    from rules import atoms
    atoms.delta_bookkeeping(ctx, 'R5')
    atoms.budget_predicate(ctx, 'R3')
    # R6: what is recorded for a stabilising block must not depend on how its ingestion is sliced: the
    # header is stored, for the block peek returned and at the current stable height, before ingestion
    # starts (shared with C03.R2), and the stable height advances once, on completion (C03.R1)
    c03.r2(SubCtx(ctx, {'R2': 'R6'}))
    c03.r1(SubCtx(ctx, {'R1': 'R6'}))
    r6(ctx)
    # R7: the header of the block being ingested is already in the stable store; the header endpoint
    # must keep serving that height from the unstable blocks only, or answers change between rounds
    # (shared with C07.R1)
    from rules import c07
    c07.run(SubCtx(ctx, {'R1': 'R7'}))


def r1(ctx):
    prog = ctx.prog
    by_fn = {}
    for fld in STORES:
        for a in accesses(prog, US, fld):
            root = prog.root_of(a.fn)
            by_fn.setdefault(root.id, (root, set(), set()))
            by_fn[root.id][1].add(fld)
            by_fn[root.id][2].add(a.kind)
    ctx.floor('R1', 'functions touching the stable stores', len(by_fn), 8)
    ing_readers = {prog.root_of(a.fn).id for a in accesses(prog, US, 'ingesting_block')}
    exp = exported(prog)
    api = {n: f for n, (k, f) in exp.items() if n.startswith('bitcoin_') or n in ('get_blockchain_info',)}
    reach = {n: prog.reach([f]) for n, f in api.items()}
    for fid, (root, flds, kinds) in sorted(by_fn.items()):
        ctx.touch(root)
        if glob_any(root.short, ['*Deserialize*', '*__Visitor*', US + '::new', 'ic_btc_canister::utxo_set::init_*']):
            continue
        if 'write' in kinds and glob_any(root.short, [US + '::remove_inputs', US + '::insert_utxo']):
            ctx.ok('R1', 'class:' + root.short, root, 'ingestion writer of %s' % sorted(flds), nontrivial=False)
            continue
        if 'write' in kinds:
            ctx.bad('R1', 'class:' + root.short, root, 'unexpected writer of the stable stores %s' % sorted(flds))
            continue
        if fid in ing_readers:
            ctx.ok('R1', 'class:' + root.short, root, 'reverting accessor of %s (also reads ingesting_block)' % sorted(flds))
            continue
        # raw reader: must not be reachable from an API answer
        hit = sorted(n for n, r in reach.items() if fid in r)
        if hit:
            for n in hit:
                ctx.bad('R1', 'raw-reader:%s@%s' % (root.short.rsplit('::', 1)[-1], n), root,
                        '%s reads the stable store %s without consulting the in-progress block\'s delta and is reachable from the API answer `%s`: '
                        'the answer changes between the slices of one block\'s ingestion' % (root.short, sorted(flds), n))
        else:
            ctx.ok('R1', 'class:' + root.short, root, 'raw reader of %s, reachable from no API answer (metrics only)' % sorted(flds))


def r1b(ctx):
    prog = ctx.prog
    D = 'ic_btc_canister::utxo_set::utxos_delta::UtxosDelta::'
    f = ctx.fn('R1b', US + '::get_balance')
    if f:
        e = ex(prog, f)
        g = cfg(f)
        adds = [c for c in f.calls() if not c.cleanup and c.matches('core::num::checked_add')]
        subs = [c for c in f.calls() if not c.cleanup and c.matches('core::num::checked_sub')]
        def loop_src(c):
            h = g.in_loop(c.bb)
            if h is None:
                return None
            srcs = [k for k in f.calls() if not k.cleanup and k.matches(D + 'get_removed_outpoints', D + 'get_added_outpoints') and g.dominates(k.bb, h)]
            # nearest dominating source
            best = None
            for k in srcs:
                if best is None or g.dominates(best.bb, k.bb):
                    best = k
            return best.short.rsplit('::', 1)[-1] if best else None
        good = len(adds) == 1 and len(subs) == 1 and loop_src(adds[0]) == 'get_removed_outpoints' and loop_src(subs[0]) == 'get_added_outpoints'
        ctx.check(good, 'R1b', 'get_balance', f, 'balance revert: + values of outpoints removed by the in-progress block, - values of outpoints it added',
                  'get_balance does not add back removed / subtract added values (adds over %s, subs over %s)' % ([loop_src(c) for c in adds], [loop_src(c) for c in subs]))
        st = P.call('core::option::Option::unwrap_or', P.call('ic_stable_structures::btreemap::BTreeMap::get', P.field('balances', P.param('self')), P.param('address')), P.const(0))
        b0 = [x for l, loc in enumerate(f.locals) if loc.get('name') == 'balance' for x in ex(prog, f).def_exprs(l)]
        ctx.check(any(st(x) for x in b0), 'R1b', 'get_balance:base', f, 'base value = balances.get(address).unwrap_or(0)', 'base balance is %s' % [show(x) for x in b0][:3])
    f = ctx.fn('R1b', US + '::get_utxo')
    if f:
        rows = table(prog, f)
        ing = P.is_(P.field('ingesting_block', P.param('self')), 'Some')
        rem = P.call(D + 'is_outpoint_removed', P.anything, P.param('outpoint'))
        add = P.call(D + 'is_outpoint_added', P.anything, P.param('outpoint'))
        r_rem = [r for r in rows if P.has(P.call(D + 'get_utxo', P.anything, P.param('outpoint')))(r[1])]
        r_add = [r for r in rows if P.agg(variant='None')(r[1])]
        r_raw = [r for r in rows if P.call('ic_btc_canister::utxo_set::utxos::Utxos::get', P.field('utxos', P.param('self')), P.param('outpoint'))(r[1])]
        good = (len(r_rem) == 1 and P.exactly(r_rem[0][2], [ing, rem]) and len(r_add) == 1 and P.exactly(r_add[0][2], [ing, P.not_(rem), add]) and len(r_raw) == 1 and len(rows) == 3)
        ctx.check(good, 'R1b', 'get_utxo', f, 'get_utxo: removed-by-block -> the delta\'s copy; added-by-block -> None; otherwise the stable store',
                  'get_utxo table: %s' % describe_table(rows))
    f = ctx.fn('R1b', US + '::get_address_outpoints')
    if f:
        e = ex(prog, f)
        ret = e.local(0)
        good = False
        why = show(ret)[:300]
        if P.call('ic_btc_canister::multi_iter::MultiIter::new', P.anything, P.anything)(ret):
            a, b = ret[2]
            filt = [x for x in walk(a) if x[0] == 'call' and x[1].endswith('Iterator::filter')]
            okf = False
            added_filters = []
            for x in filt:
                cl = x[2][1]
                if cl[0] == 'closure':
                    cf = prog.fns.get(cl[1])
                    if cf is not None:
                        ctx.touch(cf)
                        r = ex(prog, cf).local(0)
                        if P.not_(P.call('alloc::collections::btree::set::BTreeSet::contains', P.has(P.upvar()), P.anything))(r):
                            okf = True
                            added_filters.append(x)
            rng = P.has(P.call('ic_stable_structures::btreemap::BTreeMap::range', P.field('address_utxos', P.param('self')), P.anything))(a)
            # the pair (added, removed) is a match-joined tuple: resolve its components through the definitions
            def comp(x, idx, accessor):
                for n in walk(x):
                    if n[0] == 'field' and n[2] == idx and n[1][0] == 'var':
                        ds = e.def_exprs(n[1][2])
                        return bool(ds) and all(d[0] == 'agg' and (P.call(D + accessor)(dict(d[4])[idx]) or P.call('alloc::collections::btree::set::BTreeSet::new')(dict(d[4])[idx])) for d in ds) \
                            and any(P.call(D + accessor)(dict(d[4])[idx]) for d in ds)
                return P.has(P.call(D + accessor))(x)
            merged = comp(b, '1', 'get_removed_outpoints')
            caps = [u for x in added_filters for u in x[2][1][2]]
            okf = okf and bool(caps) and all(comp(u, '0', 'get_added_outpoints') for u in caps)
            good = okf and rng and merged
            why = 'filter-added=%s range=%s merge-removed=%s' % (okf, rng, merged)
        ctx.check(good, 'R1b', 'get_address_outpoints', f, 'stable scan minus outpoints added by the in-progress block, merged with the outpoints it removed', 'get_address_outpoints: %s' % why)
        # the two delta sets are taken from the matching accessors
        defs_ = {}
        for nm in ('added_outpoints', 'removed_outpoints'):
            for l, loc in enumerate(f.locals):
                if loc.get('name') == nm:
                    defs_[nm] = e.local(l)
        tup = None
        for l, loc in enumerate(f.locals):
            pass
        calls = {c.short.rsplit('::', 1)[-1]: c for c in f.calls() if c.matches(D + 'get_added_outpoints', D + 'get_removed_outpoints')}
        ctx.check(set(calls) == {'get_added_outpoints', 'get_removed_outpoints'}, 'R1b', 'get_address_outpoints:sources', f, 'both delta accessors are consulted', 'delta accessors used: %s' % sorted(calls))


def r2(ctx):
    prog = ctx.prog
    hb = ctx.fn('R2', 'ic_btc_canister::heartbeat::heartbeat::{closure#0}')
    if not hb:
        return
    ing = [c for c in hb.calls_to('ic_btc_canister::heartbeat::ingest_stable_blocks_into_utxoset') if not c.cleanup]
    later = [c for c in hb.calls() if not c.cleanup and c.matches('ic_btc_canister::heartbeat::maybe_fetch_blocks', 'ic_btc_canister::heartbeat::maybe_process_response',
                                                                    'ic_btc_canister::heartbeat::maybe_compute_fee_percentiles')]
    if not ing or len(later) < 3:
        ctx.unknown('R2', 'phases', hb, 'heartbeat phases not found')
        return
    res = P.call('ic_btc_canister::heartbeat::ingest_stable_blocks_into_utxoset')
    for c in later:
        conds = cond_exprs(prog, hb, c.bb)

        def done_false(conds):
            done = any(P.is_(res, 'Done')(k) for k in conds)
            notwork = any(k[0] == 'switch' and k[2] == ('0',) and P.has(P.downcast('Done', res))(k[1]) for k in conds) or \
                any(P.not_(P.has(P.downcast('Done', res)))(k) for k in conds)
            return done and notwork
        good = done_false(conds)
        if not good:
            # the tests need not be on the dominator chain (two `if let` in sequence join again):
            # decide on the exact path condition, every feasible disjunct must say Done(false)
            from sa.expr import feasible_path_conditions
            dnf = feasible_path_conditions(prog, hb, c.bb)
            good = bool(dnf) and all(done_false(conj) for conj in dnf)
        ctx.check(good, 'R2', 'gated:' + c.short.rsplit('::', 1)[-1], c,
                  '%s runs only when ingestion returned Done(false)' % c.short.rsplit('::', 1)[-1],
                  '%s can run in a round in which ingestion paused or did work (conditions: %s)' % (c.short.rsplit('::', 1)[-1], fmt_conds(conds)[:200]))
    w = ctx.fn('R2', 'ic_btc_canister::heartbeat::ingest_stable_blocks_into_utxoset')
    if w:
        from rules.walks import ingestion_wrapper_direct
        good, why = ingestion_wrapper_direct(prog, w)
        ctx.check(good, 'R2', 'wrapper', w, 'the heartbeat\'s ingestion step is state::ingest_stable_blocks_into_utxoset, unconditionally', 'heartbeat ingestion wrapper does something else (%s)' % why)
    require_callers(ctx, 'R2', 'callers:insert_block', ['ic_btc_canister::state::insert_block'], {'ic_btc_canister::heartbeat::maybe_process_response'})


def r3(ctx):
    prog = ctx.prog
    require_writers(ctx, 'R3', 'writers:ingesting_block', US, 'ingesting_block', {US + '::ingest_block', US + '::ingest_block_continue', '*Deserialize*', '*__Visitor*'}, floor=2)
    f = ctx.fn('R3', US + '::ingest_block_continue')
    if f:
        e = ex(prog, f)
        g = cfg(f)
        fa = field_assignments(prog, f, US, 'ingesting_block')
        rows = table(prog, f)
        paused = [r for r in rows if P.has(P.agg(variant='Paused'))(r[1])]
        done = [r for r in rows if P.has(P.agg(variant='Done'))(r[1])]
        taken = P.downcast('Continue', P.has(P.call('core::option::Option::take', P.field('ingesting_block', P.param('self')))))
        its = P.call(US + '::ingest_tx_with_slicing')
        want = P.agg(variant='Some', _0=P.agg('IngestingBlock',
                                             block=P.field('block', P.has(taken)),
                                             next_tx_idx=P.has(P.call('*::next')),
                                             next_input_idx=P.field('0', P.has(P.downcast('Paused', its))),
                                             next_output_idx=P.field('1', P.has(P.downcast('Paused', its))),
                                             utxos_delta=P.either(P.named('utxos_delta'), P.field('utxos_delta', P.anything)), stats=P.either(P.named('stats'), P.field('stats', P.anything))))
        stores = [(bb, x) for bb, _, x in fa if want(x)]
        good = len(paused) == 1 and len(stores) == 1 and g.dominates(stores[0][0], paused[0][0])
        ctx.check(good, 'R3', 'paused-stores-resume-state', f.where(paused[0][0]) if paused else f,
                  'a Paused return always stores Some(IngestingBlock{block, next_tx_idx: tx_idx, indices from the Paused payload, delta, stats})',
                  'Paused return without the expected resume state; stores: %s' % [show(x)[:200] for _, _, x in fa])
        # Done path leaves it None: no store reaches the Done return
        bad = [bb for bb, _, _ in fa for r in done if g.reaches(bb, r[0])]
        ctx.check(bool(done) and not bad, 'R3', 'done-leaves-none', f.where(done[0][0]) if done else f, 'on completion the resume state stays None (it was taken)', 'ingesting_block is set on a path to Done')
        # loop skips exactly next_tx_idx
        sk = [c for c in f.calls() if not c.cleanup and c.matches('core::iter::traits::iterator::Iterator::skip')]
        good = len(sk) == 1 and P.field('next_tx_idx', P.has(taken))(e.operand(sk[0].args[1])) and \
            P.call('core::iter::traits::iterator::Iterator::enumerate', P.call('core::slice::iter', P.call('ic_btc_types::Block::txdata', P.anything)))(e.operand(sk[0].args[0]))
        ctx.check(good, 'R3', 'resume-skips-next_tx_idx', sk[0] if sk else f, 'the transaction loop is txdata().iter().enumerate().skip(next_tx_idx)', 'transaction loop source: %s' % [show(e.operand(c.args[0]))[:150] for c in sk])
        # indices reset to 0 after a completed tx
        from sa.util import find_locals
        for nm in ('next_input_idx', 'next_output_idx'):
            ls = find_locals(prog, f, lambda x, l, nm=nm: x[0] == 'field' and x[2] == nm, lambda x, l: const_val(x) == 0)
            resets = [(bb, x) for l in ls for bb, x in local_assignments(prog, f, l) if const_val(x) == 0]
            h = g.in_loop(resets[0][0]) if resets else None
            ctx.check(bool(resets) and h is not None, 'R3', 'reset:' + nm, f.where(resets[0][0]) if resets else f, '%s is reset to 0 after each completed transaction' % nm, '%s is not reset inside the loop' % nm)
        # arguments of ingest_tx_with_slicing are the resume indices
        c = [k for k in f.calls_to(US + '::ingest_tx_with_slicing') if not k.cleanup]
        from sa.util import find_locals, is_var
        def idx_local(field):
            ls = find_locals(prog, f, lambda x, l: x[0] == 'field' and x[2] == field, lambda x, l: const_val(x) == 0)
            return is_var(ls[0]) if len(ls) == 1 else (lambda x: False)
        good = len(c) == 1 and idx_local('next_input_idx')(e.operand(c[0].args[2])) and idx_local('next_output_idx')(e.operand(c[0].args[3]))
        ctx.check(good, 'R3', 'resume-indices-passed', c[0] if c else f, 'the stored input/output indices are passed to the per-transaction step', 'per-transaction step receives other indices')
    f = ctx.fn('R3', US + '::ingest_tx_with_slicing')
    if f:
        rows = table(prog, f)
        ri = P.call(US + '::remove_inputs', P.param('self'), P.param('tx'), P.param('start_input_idx'), P.param('utxos_delta'))
        io = P.call(US + '::insert_outputs', P.param('self'), P.param('tx'), P.param('start_output_idx'), P.param('utxos_delta'), P.param('stats'))
        p1 = [r for r in rows if P.agg(variant='Paused', _0=P.agg(_0=P.field('0', P.downcast('Paused', ri)), _1=P.const(0)))(r[1]) and P.exactly(r[2], [P.is_(ri, 'Paused')])]
        p2 = [r for r in rows if P.agg(variant='Paused', _0=P.agg(_0=P.length(P.call('ic_btc_types::Transaction::input', P.param('tx'))), _1=P.field('0', P.downcast('Paused', io))))(r[1])
              and P.exactly(r[2], [P.is_(ri, 'Done'), P.is_(io, 'Paused')])]
        d = [r for r in rows if P.agg(variant='Done')(r[1]) and P.exactly(r[2], [P.is_(ri, 'Done'), P.is_(io, 'Done')])]
        ctx.check(len(p1) == 1 and len(p2) == 1 and len(d) == 1 and len(rows) == 3, 'R3', 'tx-step-table', f,
                  'per-transaction step: inputs paused -> (i, 0); outputs paused -> (all inputs, j); Done only when both are Done', 'table: %s' % describe_table(rows))
    for name, acc, eff in (('remove_inputs', 'input', 'ic_btc_canister::utxo_set::utxos::Utxos::remove'), ('insert_outputs', 'output', US + '::insert_utxo')):
        f = ctx.fn('R3', US + '::' + name)
        if not f:
            continue
        e = ex(prog, f)
        g = cfg(f)
        rows = table(prog, f)
        it = P.call('core::iter::traits::iterator::Iterator::skip', P.call('core::iter::traits::iterator::Iterator::enumerate', P.call('core::slice::iter', P.call('ic_btc_types::Transaction::' + acc, P.param('tx')))), P.param('start_idx'))
        nxt = P.call('<core::iter::adapters::skip::Skip as core::iter::traits::iterator::Iterator>::next', it)
        slice_ = P.call('<alloc::boxed::Box as core::ops::function::FnMut>::call_mut', P.field('should_time_slice', P.param('self')), P.anything)
        pz = [r for r in rows if P.agg(variant='Paused', _0=P.field('0', P.field('0', P.downcast('Some', nxt))))(r[1]) and any(P.is_(nxt, 'Some')(c) for c in r[2]) and any(slice_(c) for c in r[2])]
        ctx.check(len(pz) == 1, 'R3', name + ':pause-returns-current-index', f.where(pz[0][0]) if pz else f,
                  '%s pauses with the index of the element not yet processed, iterating enumerate().skip(start_idx)' % name, '%s table: %s' % (name, describe_table(rows)))
        effs = [c for c in f.calls() if not c.cleanup and c.matches(eff)]
        okd = bool(effs) and all(any(P.not_(slice_)(c) for c in cond_exprs(prog, f, k.bb)) for k in effs)
        ctx.check(okd, 'R3', name + ':check-before-effect', effs[0] if effs else f, 'the budget check precedes the effect on each element (a paused element is untouched)', 'effect not guarded by the budget check')
    f = ctx.fn('R3', US + '::ingest_block')
    if f:
        pbs = panic_blocks(f)
        conds = [cond_exprs(prog, f, b) for b in pbs]
        fa = field_assignments(prog, f, US, 'ingesting_block')
        g = cfg(f)
        isnone = P.call('core::option::Option::is_none', P.field('ingesting_block', P.param('self')))
        good = any(any(P.not_(isnone)(c) for c in cs) for cs in conds) and len(fa) == 1 and any(isnone(c) for c in cond_exprs(prog, f, fa[0][0]))
        ctx.check(good, 'R3', 'ingest_block-asserts-none', f, 'ingest_block asserts that no block is in progress before storing the new one', 'ingest_block does not assert ingesting_block.is_none() first')


def r6(ctx):
    prog = ctx.prog
    f = ctx.fn('R6', 'ic_btc_canister::state::ingest_stable_blocks_into_utxoset')
    if not f:
        return
    g = cfg(f)
    ins = [c for c in f.calls_to('ic_btc_canister::block_header_store::BlockHeaderStore::insert_block') if not c.cleanup]
    ing = [c for c in f.calls_to(US + '::ingest_block') if not c.cleanup]
    paused_arm = lambda c: c[0] == 'hidden' and any(isinstance(x, tuple) and x[0] == 'call' and x[1].rsplit('::', 1)[-1] in ('ingest_block_continue', 'ingest_block') for x in walk(c[1]))
    good = len(ins) == 1 and len(ing) == 1 and g.dominates(ins[0].bb, ing[0].bb) and not [c for c in cond_exprs(prog, f, ins[0].bb)
                                                                                          if not (c[0] == 'is' and P.call('ic_btc_canister::unstable_blocks::peek', P.anything)(c[1])) and not paused_arm(c)]
    ctx.check(good, 'R6', 'header-stored-before-ingestion-starts', ins[0] if ins else f,
              'the stabilising block\'s header is stored once, before its ingestion starts, on the only path that starts an ingestion — whether or not that ingestion is later paused',
              'the header of a stabilising block is not stored unconditionally before its ingestion starts: a block whose ingestion is paused and finished by a later heartbeat is recorded differently from one ingested in one go')


def r4(ctx):
    prog = ctx.prog
    pats = ['ic_btc_canister::state::ingest_stable_blocks_into_utxoset', US + '::ingest_block', US + '::ingest_block_continue', US + '::ingest_tx_with_slicing',
            US + '::remove_inputs', US + '::insert_outputs', 'ic_btc_canister::heartbeat::ingest_stable_blocks_into_utxoset']
    from sa.dataflow import flow_forward
    from sa.util import _adaptor_call, place_of_local
    n = 0
    for c in prog.callers(*pats):
        n += 1
        f = c.fn
        t = f.blocks[c.bb]['term']
        ok = False
        if t.get('dst') is not None:
            if t['dst']['l'] == 0:
                ok = True  # returned to the caller, which is itself checked
            else:
                tainted = flow_forward(f, {t['dst']['l']}, through_calls=lambda tt: _adaptor_call(tt) or 'expect' in str(tt['func']))
                for b in f.blocks:
                    tt = b['term']
                    if tt['k'] == 'switch' and place_of_local(tt['discr']) in tainted:
                        ok = True
                if 0 in tainted:
                    ok = True
        ctx.saw_calls()
        ctx.check(ok, 'R4', 'consumed:%s<-%s' % (c.short.rsplit('::', 1)[-1], prog.root_of(f).short.rsplit('::', 1)[-1]), c,
                  'the Slicing result is branched on or returned', 'the Slicing result of %s is discarded' % c.short)
    ctx.floor('R4', 'call sites returning Slicing', n, 7)
