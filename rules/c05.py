"""C05 — Balance equals the sum of the UTXOs reported for the same request (DESIGN §5 C05)."""
from sa import pat as P
from sa.cfg import cfg
from sa.expr import ex, show, walk, cond_exprs, const_val
from sa.util import table, fmt_conds, describe_table, glob_any
from rules.walks import *

EXPLANATION = (
    "Decides structurally: R1 shared cut — the per-block admission predicate of the two chain walks "
    "(get_utxos_from_chain, get_balance) is the same function of the same inputs: both refuse block i exactly when "
    "min_confirmations > 0 and get_stability_count(depths[i], hash_i) < min_confirmations as i32, and both leave the "
    "loop on refusal; with no filter (c = 0) both walks are total; R2 one implementation per query/update pair "
    "(get_balance / get_balance_query reach the same private function, get_utxos / get_utxos_query likewise, differing "
    "only in the charging constant); R3 same address front door — both parse with Address::from_str_checked(_, "
    "state network) and map MalformedAddress / WrongNetwork{expected} to the corresponding error; both refuse c > chain "
    "length with the same payload (C04.R1); R4 same delta sources — the unstable part of the balance uses the accessors "
    "AddressUtxoSet::apply_block uses (get_added_outpoints +, get_removed_outpoints -, values via get_tx_out), over the "
    "best chain, on top of the reverting accessor UtxoSet::get_balance. "
    "Does NOT decide: numeric equality on arbitrary states.")
RULES = {
    'R1': 'sibling agreement of the admission predicate of the two walks (same resolved callee, same operands)',
    'R2': 'query and update variants share the implementation',
    'R3': 'same address parser and error table; address text passed to the parser unmodified in both endpoints',
    'R4': 'same delta accessors with the right signs',
    'R6': 'READERS(REACH(get_utxos, get_balance)) ∩ state fields ⊆ fields carried across upgrades (coverage table of C09)',
    'R5': 'the paged listing enumerates each UTXO once: inclusive scan bounds and key order (= C01.R6), resume offset and next_page (= C06.R5/R6)',
}
ASSUMPTIONS = []


def admission(prog, f, apply_pats):
    k, ap, h = find_walk(prog, f, apply_pats)
    if ap is None:
        return None
    d = cut_literals(prog, k, ap.bb)
    g = cfg(k)
    return {'fn': k, 'site': ap, 'header': h, 'dnf': d}


def unfiltered_total(ctx, rule, au=None, ab=None, C=None):
    """with c = 0 neither walk has a feasible early exit: the unfiltered answer is as of the best
    chain's tip (also C02.R4: every endpoint names the same tip)"""
    prog = ctx.prog
    if au is None:
        fu = ctx.fn(rule, GU + 'get_utxos_from_chain')
        fb = ctx.fn(rule, GB + 'get_balance_private')
        if not (fu and fb):
            return
        au = admission(prog, fu, ['ic_btc_canister::address_utxoset::AddressUtxoSet::apply_block'])
        ab = admission(prog, fb, [UB + 'GenericUnstableBlocks::get_added_outpoints'])
        if not au or not ab:
            ctx.unknown(rule, 'walks', fu, 'chain walks not found')
            return
        REQC = P.call('core::option::Option::unwrap_or', P.field('min_confirmations', P.param('request')), P.const(0))
        C = P.either(P.param('min_confirmations'), P.captured(ex(prog, ab['fn']), REQC), REQC)
    for nm, a in (('get_utxos', au), ('get_balance', ab)):
        ok, why = total_under(prog, a['fn'], a['site'].bb, {}, preds=[(C, 0)])
        ctx.check(ok, rule, 'unfiltered-total:' + nm, a['site'], '%s applies every best-chain block when c = 0' % nm, '%s with c = 0: %s' % (nm, why))


def run(ctx):
    prog = ctx.prog
    fu = ctx.fn('R1', GU + 'get_utxos_from_chain')
    fb = ctx.fn('R1', GB + 'get_balance_private')
    if fu and fb:
        au = admission(prog, fu, ['ic_btc_canister::address_utxoset::AddressUtxoSet::apply_block'])
        ab = admission(prog, fb, [UB + 'GenericUnstableBlocks::get_added_outpoints'])
        if not au or not ab or au['dnf'] is None or ab['dnf'] is None:
            ctx.unknown('R1', 'walks', fu, 'chain walks not found')
        else:
            # the confirmation count: the walk's parameter (get_utxos) / the captured request value (get_balance)
            REQC = P.call('core::option::Option::unwrap_or', P.field('min_confirmations', P.param('request')), P.const(0))
            C = P.either(P.param('min_confirmations'), P.captured(ex(prog, ab['fn']), REQC), REQC)
            want = P.binop('Le', P.cast(C, 'i32'), STAB)
            def shape(a):
                lits = [c for conj in a['dnf'] for c in conj]
                uses_stab = any(want(c) for c in lits)
                other = [c for c in lits if not want(c) and not (c[0] == 'bin' and c[1] in ('Le', 'Lt', 'Eq', 'Ne') and (P.const(0)(c[2]) or P.const(0)(c[3])) and (C(c[2]) or C(c[3])))]
                return uses_stab, other
            su, ou = shape(au)
            sb, ob = shape(ab)
            ctx.check(su and not ou, 'R1', 'cut:get_utxos', au['site'], 'get_utxos admits block i by get_stability_count(depths[i], hash_i) >= c', 'get_utxos admission literals: %s' % [show(c)[:160] for c in ou][:3])
            ctx.check(sb and not ob, 'R1', 'cut:get_balance', ab['site'],
                      'get_balance admits block i by the same stability count as get_utxos',
                      'get_balance admits blocks by %s instead of the stability count get_utxos uses: with a competing block at some height the two answers differ '
                      '(e.g. chain of 3 + one 1-block fork, c = 3: balance 500, sum of UTXOs 0)' % ([show(c)[:200] for c in ob][:2] or [show(c)[:200] for c in cond_exprs(prog, ab['fn'], ab['site'].bb)][-2:]))
            unfiltered_total(ctx, 'R1', au, ab, C)
            # both leave the loop on refusal
            for nm, a in (('get_utxos', au), ('get_balance', ab)):
                k, g, h = a['fn'], cfg(a['fn']), a['header']
                ref = g.refusing_targets(h, a['site'].bb)
                # the arm taken when the iterator is exhausted is the normal loop exit, not a refusal
                ref = [(s, b) for s, b in ref if not (cond_exprs(prog, k, b) and cond_exprs(prog, k, b)[-1][0] == 'is' and cond_exprs(prog, k, b)[-1][2] == ('None',) and P.call('*::next')(cond_exprs(prog, k, b)[-1][1]))]
                ctx.check(bool(ref) and not any(g.reaches(b, h) for _, b in ref), 'R1', 'refusal-ends-walk:' + nm, a['site'], '%s stops at the first refused block' % nm, '%s continues after a refused block' % nm)
            # same chain: both walk get_main_chain(...).into_chain() enumerated
            eb = ex(prog, ab['fn'])
            it = [c for c in ab['fn'].calls() if not c.cleanup and c.matches('core::iter::traits::iterator::Iterator::enumerate')]
            ok = len(it) >= 1 and P.call('core::slice::iter', P.call('ic_btc_canister::blocktree::BlockChain::into_chain', P.has(P.call(UB + 'get_main_chain'))))(eb.operand(it[0].args[0]))
            ctx.check(ok, 'R1', 'balance-walks-best-chain', it[0] if it else fb, 'get_balance walks get_main_chain(..).into_chain() in order', 'get_balance does not enumerate the best chain')
    # ---------------- R2
    for a, b, priv in ((GB + 'get_balance', GB + 'get_balance_query', GB + 'get_balance_private'), (GU + 'get_utxos', GU + 'get_utxos_query', GU + 'get_utxos_private')):
        fa, fq, fp = ctx.fn('R2', a), ctx.fn('R2', b), ctx.fn('R2', priv)
        if fa and fq and fp:
            ca = [c for c in fa.calls_to(priv) if not c.cleanup]
            cq = [c for c in fq.calls_to(priv) if not c.cleanup]
            good = len(ca) == 1 and len(cq) == 1 and P.param('request')(ex(prog, fa).operand(ca[0].args[0])) and P.param('request')(ex(prog, fq).operand(cq[0].args[0]))
            good = good and ex(prog, fa).local(0)[0] == 'call' and ex(prog, fq).local(0)[0] == 'call' and ex(prog, fa).local(0)[1] == priv and ex(prog, fq).local(0)[1] == priv
            ctx.check(good, 'R2', 'shared-impl:' + priv.rsplit('::', 1)[-1], fq, '%s and %s return %s(request, ..) unchanged' % (a.rsplit('::', 1)[-1], b.rsplit('::', 1)[-1], priv.rsplit('::', 1)[-1]),
                      'query and update variant do not share %s' % priv)
    # the entry wrappers of a query / update pair refuse under the same gates (one that traps where the
    # other answers does not "return the same values")
    for a, b in (('ic_btc_canister::get_balance', 'ic_btc_canister::get_balance_query'), ('ic_btc_canister::get_utxos', 'ic_btc_canister::get_utxos_query')):
        fa, fq = ctx.fn('R2', a), ctx.fn('R2', b)
        if fa and fq:
            def gates(f_):
                return sorted(c.short.rsplit('::', 1)[-1] for c in f_.calls() if not c.cleanup and c.short and c.short.startswith('ic_btc_canister::verify_'))
            ctx.check(gates(fa) == gates(fq) and len(gates(fa)) >= 2, 'R2', 'same-gates:' + a.rsplit('::', 1)[-1], fq,
                      '%s and %s call the same verifiers %s' % (a.rsplit('::', 1)[-1], b.rsplit('::', 1)[-1], gates(fa)),
                      'the update variant is gated by %s, the query variant by %s' % (gates(fa), gates(fq)))
    # ---------------- R3
    tabs = {}
    for nm, f, errp in (('get_utxos', fu, 'GetUtxosError'), ('get_balance', fb, 'GetBalanceError')):
        if not f:
            continue
        e = ex(prog, f)
        ps = [c for c in f.calls_to('ic_btc_canister::types::Address::from_str_checked') if not c.cleanup]
        good = len(ps) == 1
        net_ok = False
        if good:
            n = e.operand(ps[0].args[1])
            net_ok = P.call('ic_btc_canister::state::GenericState::network', P.anything)(n)
            if P.call('ic_btc_canister::with_state', P.anything)(n) and n[2][0][0] == 'closure' and n[2][0][1] in prog.fns:
                net_ok = P.call('ic_btc_canister::state::GenericState::network', P.anything)(ex(prog, prog.fns[n[2][0][1]]).local(0))
        me = [c for c in f.calls_to('core::result::Result::map_err') if not c.cleanup and ps and P.has(P.call('ic_btc_canister::types::Address::from_str_checked'))(e.operand(c.args[0]))]
        t = {}
        if me:
            for cid in me[0].closure_args():
                k = prog.fns.get(cid)
                if k:
                    ctx.touch(k)
                    for _, val, conds in table(prog, k):
                        if len(conds) == 1 and conds[0][0] == 'is' and val[0] == 'agg':
                            payload = dict(val[4]).get('expected')
                            t[conds[0][2]] = (val[3], payload is not None and P.has(P.field('expected'))(payload))
        tabs[nm] = (good and net_ok, t)
        want = {('MalformedAddress',): ('MalformedAddress', False), ('WrongNetwork',): ('AddressForWrongNetwork', True)}
        ctx.check(good and net_ok and t == want, 'R3', 'address-front-door:' + nm, ps[0] if ps else f,
                  '%s parses with Address::from_str_checked(_, canister network) and maps MalformedAddress / WrongNetwork{expected} one to one' % nm,
                  '%s address handling: parser=%s table=%s' % (nm, good and net_ok, t))
    # both hand the request's address text to the parser as it arrived (no trimming / case folding in one
    # endpoint only): the argument is `request.address`, possibly passed down through parameters
    def verbatim(fn_, e_, depth=0):
        if isinstance(e_, tuple) and e_[0] == 'field' and e_[2] == 'address' and e_[1][0] in ('param', 'upvar'):
            return True
        if isinstance(e_, tuple) and e_[0] == 'param' and depth < 4:
            cs_ = [c for c in prog.callers(fn_.short) if not c.cleanup]
            return bool(cs_) and all(verbatim(c.fn, ex(prog, c.fn).operand(c.args[e_[1] - 1]), depth + 1) for c in cs_)
        return False
    for nm, f in (('get_utxos', fu), ('get_balance', fb)):
        if not f:
            continue
        for k in [f] + prog.descendants(f):
            for c in k.calls_to('ic_btc_canister::types::Address::from_str_checked'):
                if c.cleanup:
                    continue
                a = ex(prog, k).operand(c.args[0])
                ctx.check(verbatim(k, a), 'R3', 'address-verbatim:' + nm, c, '%s parses the request\'s address text unmodified' % nm,
                          '%s transforms the address text before parsing it (%s): the two endpoints no longer accept / reject the same strings' % (nm, show(a)[:100]))
    # both refuse c > chain length with the same error and payload (shared with C04.R1)
    from sa.engine import SubCtx
    from rules import c04
    c04.run(SubCtx(ctx, {'R1': 'R3'}))
    # ---------------- R4
    if fb:
        k = None
        for x in prog.descendants(fb):
            if any(c.matches(UB + 'GenericUnstableBlocks::get_added_outpoints') for c in x.calls()):
                k = x
        if k is None:
            ctx.unknown('R4', 'delta-sources', fb, 'balance walk closure not found')
        else:
            ctx.touch(k)
            e = ex(prog, k)
            g = cfg(k)
            from sa.util import find_locals, is_var
            GB_ = P.call('ic_btc_canister::utxo_set::UtxoSet::get_balance', P.field('utxos', P.anything), P.anything)
            lb = find_locals(prog, k, lambda x, l: GB_(x), lambda x, l: x[0] == 'bin' and x[1] in ('Add', 'Sub'))
            BAL = is_var(lb[0]) if len(lb) == 1 else (lambda x: False)
            upd = table(prog, k, lb[0]) if len(lb) == 1 else []
            base = [x for x in upd if P.call('ic_btc_canister::utxo_set::UtxoSet::get_balance', P.field('utxos', P.anything), P.anything)(x[1])]
            def loop_source(bb):
                h = g.in_loop(bb)
                best = None
                for c in k.calls():
                    if c.cleanup or not c.matches(UB + 'GenericUnstableBlocks::get_added_outpoints', UB + 'GenericUnstableBlocks::get_removed_outpoints'):
                        continue
                    if h is not None and g.dominates(c.bb, h) and (best is None or g.dominates(best.bb, c.bb)):
                        best = c
                return best.short.rsplit('::', 1)[-1] if best else None
            val = P.field('value', P.has(P.call(UB + 'GenericUnstableBlocks::get_tx_out')))
            adds = [x for x in upd if P.binop('Add', BAL, val)(x[1])]
            subs = [x for x in upd if P.binop('Sub', BAL, val)(x[1])]
            good = len(base) == 1 and len(adds) == 1 and len(subs) == 1 and len(upd) == 3 and loop_source(adds[0][0]) == 'get_added_outpoints' and loop_source(subs[0][0]) == 'get_removed_outpoints'
            ctx.check(good, 'R4', 'delta-sources', k, 'balance = UtxoSet::get_balance(address) + values of added outpoints - values of removed outpoints, per admitted block',
                      'balance updates: %s (adds over %s, subs over %s)' % (describe_table(upd), [loop_source(x[0]) for x in adds], [loop_source(x[0]) for x in subs]))
            srcs = [c for c in k.calls() if not c.cleanup and c.matches(UB + 'GenericUnstableBlocks::get_added_outpoints', UB + 'GenericUnstableBlocks::get_removed_outpoints')]
            okarg = all(P.call('*::block_hash', BLK)(e.operand(c.args[1])) and P.has(P.either(P.upvar(), P.var(), P.param()))(e.operand(c.args[2])) for c in srcs) and len(srcs) == 2
            ctx.check(okarg, 'R4', 'delta-keyed-by-block-and-address', srcs[0] if srcs else k, 'both accessors are keyed by the walked block\'s hash and the parsed address', 'delta accessors use other keys')
    # the UTXO side nets created-and-spent outputs through the spent filter on both merged sources, as the
    # balance side does by subtraction (shared with C01.R8)
    from rules import c01
    c01.r8(SubCtx(ctx, {'R8': 'R4'}))
    # R5: "the UTXOs reported for the same request" are all pages followed: the listing must enumerate
    # every UTXO of the address exactly once across page boundaries — inclusive scan bounds at the page
    # offset, key order = Utxo order (shared with C01.R6), offset applied to both sources, next_page =
    # first UTXO not returned (shared with C06.R5/R6)
    c01.r6(SubCtx(ctx, {'R6': 'R5'}))
    # R6: "every moment" includes right after an upgrade, also one that interrupts a sliced ingestion:
    # everything the two readers read (the in-progress delta above all) is carried across upgrades
    from rules import c09
    if fu and fb:
        gp = prog.fn(GU + 'get_utxos_private', required=False)
        c09.inputs_survive_upgrades(ctx, 'R6', [x for x in (gp, fu, fb) if x is not None], 'get_utxos / get_balance', floor=10)
    from rules import c06
    c06.run(SubCtx(ctx, {'R5': 'R5', 'R6': 'R5', 'R1': 'R5'}))  # R1: the token names the tip the first page reported (C05-9)
    ap = ctx.fn('R4', 'ic_btc_canister::address_utxoset::AddressUtxoSet::apply_block')
    if ap:
        names = sorted({c.short.rsplit('::', 1)[-1] for c in ap.calls() if not c.cleanup and c.matches(UB + 'GenericUnstableBlocks::get_*')})
        ctx.check(set(names) >= {'get_added_outpoints', 'get_removed_outpoints', 'get_tx_out'}, 'R4', 'apply_block-sources', ap, 'apply_block uses the same three accessors', 'apply_block accessors: %s' % names)


# plumbing between the interface and the analysed functions (rules/plumbing.py)
_run_before_plumbing = run


def run(ctx):
    _run_before_plumbing(ctx)
    from rules import plumbing
    plumbing.request_conversions(ctx, 'R3')
