"""C17 — The watchdog changes API access only on a quorum of agreeing explorers (DESIGN §5 C17)."""
from sa import pat as P
from sa.cfg import cfg
from sa.expr import ex, show, walk, cond_exprs, const_val
from sa.util import gate, table, fmt_conds, describe_table, require_callers, the_closure, glob_any, local_assignments, local_by_name
from sa.dataflow import writers

EXPLANATION = (
    "Decides the watchdog's decision as extracted tables: R1 calculate_target (Ok -> Enabled, Behind|Ahead -> "
    "Disabled, NotEnoughData -> no action); compare: diff = canister - target as i64, Behind iff diff < -behind, Ahead "
    "iff diff > ahead, else Ok, NotEnoughData iff either side is None (zip); calculate_height_target: None when fewer "
    "than min_explorers heights, band = [median - behind, median + ahead] inclusive, Some(median) iff at least "
    "min_explorers heights lie in the band; median: sorted copy, mean of the two middle values for even length; "
    "R2 action gating: set_config is sent only if a target exists and differs from the actual flag, and carries that "
    "target; R3 latest round only: the per-provider store and the canister height are overwritten unconditionally with "
    "every result of the fresh round, one BlockInfo per provider by zip with height = value[\"height\"].as_u64() (a "
    "failure yields None), no filter between providers and results; R4 order independence: the heights slice flows only "
    "into order-insensitive consumers (len, sorted copy, filter-count). "
    "Does NOT decide: arithmetic on extreme heights (the property restricts to heights above the thresholds).")
RULES = {
    'R1': 'decision tables of calculate_target, compare, calculate_height_target, median, threshold accessors',
    'R2': 'GATE(target.is_some() ∧ target != actual ⇒ update_api_access); payload of the set_config request',
    'R3': 'WRITERS/CALLERS of the latest-round stores; adaptor whitelist between providers and results',
    'R4': 'consumers of the heights slice are order-insensitive',
}
ASSUMPTIONS = ['serde_json::Value indexing returns Null for a missing member (as_u64 -> None)']
H = 'watchdog::health::'


def run(ctx):
    r1(ctx)
    r2(ctx)
    r3(ctx)
    r4(ctx)


def r1(ctx):
    prog = ctx.prog
    f = ctx.fn('R1', 'watchdog::api_access::calculate_target')
    if f:
        got = {}
        for _, e, c in table(prog, f):
            if len(c) == 1 and c[0][0] == 'is' and P.field('height_status', P.param('health'))(c[0][1]):
                v = 'None' if P.agg(variant='None')(e) else (dict(e[4])['0'][3] if P.agg(variant='Some')(e) else show(e))
                got[c[0][2]] = v
        ctx.check(got == {('NotEnoughData',): 'None', ('Ahead', 'Behind'): 'Disabled', ('Ok',): 'Enabled'}, 'R1', 'calculate_target', f,
                  'Ok -> Enabled; Behind|Ahead -> Disabled; NotEnoughData -> None', 'calculate_target table is %s' % got)
    cfgt = {'get_blocks_behind_threshold': P.unop('Neg', P.cast(P.field('blocks_behind_threshold', P.param('self')), 'i64')),
            'get_blocks_ahead_threshold': P.cast(P.field('blocks_ahead_threshold', P.param('self')), 'i64')}
    for name, pat in cfgt.items():
        f = ctx.fn('R1', 'watchdog::config::Config::' + name)
        if f:
            r = ex(prog, f).local(0)
            ctx.check(pat(r), 'R1', name, f, '%s = %s' % (name, show(r)), '%s computes %s' % (name, show(r)))
    f = ctx.fn('R1', H + 'compare')
    if f:
        e = ex(prog, f)
        r = e.local(0)
        d = dict(r[4]) if r[0] == 'agg' else {}
        # heights = explorers.iter().filter_map(|b| b.height).collect()
        cht = [c for c in f.calls_to(H + 'calculate_height_target') if not c.cleanup]
        good = False
        if cht:
            a = [e.operand(x) for x in cht[0].args]
            hs = a[0]
            fm = [x for x in walk(hs) if x[0] == 'call' and x[1].endswith('Iterator::filter_map')]
            okfm = False
            for x in fm:
                cl = x[2][1]
                if cl[0] == 'closure' and cl[1] in prog.fns:
                    okfm = P.field('height', P.anything)(ex(prog, prog.fns[cl[1]]).local(0))
            good = (okfm and P.has(P.call('core::slice::iter', P.param('explorers')))(hs) and
                    P.cast(P.field('min_explorers', P.param('config')))(a[1]) and
                    P.call('watchdog::config::Config::get_blocks_behind_threshold', P.param('config'))(a[2]) and
                    P.call('watchdog::config::Config::get_blocks_ahead_threshold', P.param('config'))(a[3]))
        ctx.check(good, 'R1', 'compare:target-inputs', cht[0] if cht else f,
                  'target = calculate_height_target(heights of explorers (filter_map height), min_explorers, -behind, ahead)', 'calculate_height_target is called with other inputs')
        hd = d.get('height_diff')
        zipok = hd is not None and P.call('core::option::Option::map', P.call('core::option::Option::zip', P.param('canister_height'), P.has(P.call(H + 'calculate_height_target'))), P.anything)(hd)
        subok = False
        if zipok and hd[2][1][0] == 'closure' and hd[2][1][1] in prog.fns:
            k = prog.fns[hd[2][1][1]]
            ctx.touch(k)
            rr = ex(prog, k).local(0)
            subok = P.binop('Sub', P.cast(P.field('0', P.anything), 'i64'), P.cast(P.field('1', P.anything), 'i64'))(rr)
        ctx.check(zipok and subok, 'R1', 'compare:diff', f, 'height_diff = canister.zip(target).map(|(s, t)| s as i64 - t as i64) (None iff either side is None)', 'height_diff is %s' % (show(hd)[:200] if hd else None))
        hs_ = d.get('height_status')
        okst = hs_ is not None and P.call('core::option::Option::map_or', P.anything, P.agg(variant='NotEnoughData'), P.anything)(hs_) and hs_[2][0] == hd
        tab = {}
        if okst and hs_[2][2][0] == 'closure' and hs_[2][2][1] in prog.fns:
            k = prog.fns[hs_[2][2][1]]
            ctx.touch(k)
            BEH = P.call('watchdog::config::Config::get_blocks_behind_threshold', P.anything)
            AHE = P.call('watchdog::config::Config::get_blocks_ahead_threshold', P.anything)
            D = P.param('diff')
            want = {'Behind': [P.binop('Lt', D, BEH)], 'Ahead': [P.binop('Le', BEH, D), P.binop('Lt', AHE, D)], 'Ok': [P.binop('Le', BEH, D), P.binop('Le', D, AHE)]}
            rows = table(prog, k)
            for v, pats in want.items():
                rs = [r_ for r_ in rows if P.agg(variant=v)(r_[1])]
                tab[v] = len(rs) == 1 and P.exactly(rs[0][2], pats)
            okst = all(tab.values()) and len(rows) == 3
        ctx.check(bool(okst), 'R1', 'compare:status', f, 'status = NotEnoughData if no diff; Behind iff diff < -behind; Ahead iff diff > ahead; else Ok', 'status table mismatch: %s' % tab)
        ctx.check(d.get('canister_height') == ('param', 1, 'canister_height') and P.param('explorers')(d.get('explorers', ('x',))), 'R1', 'compare:passthrough', f, 'status reports the inputs it was computed from', 'HealthStatus fields do not pass the inputs through')
    f = ctx.fn('R1', H + 'calculate_height_target')
    if f:
        rows = table(prog, f)
        HT = P.param('heights')
        ME = P.param('min_explorers')
        med = P.has(P.call(H + 'median', HT))
        cnt = P.call('<core::iter::adapters::filter::Filter as core::iter::traits::iterator::Iterator>::count', P.call('core::iter::traits::iterator::Iterator::filter', P.call('core::slice::iter', HT), P.anything))
        r_few = [r for r in rows if P.agg(variant='None')(r[1]) and P.exactly(r[2], [P.binop('Lt', P.length(HT), ME)])]
        r_some = [r for r in rows if P.agg(variant='Some')(r[1]) and P.has(P.downcast('Continue', med))(r[1]) and any(P.binop('Le', ME, cnt)(c) for c in r[2])]
        r_none2 = [r for r in rows if P.agg(variant='None')(r[1]) and any(P.binop('Lt', cnt, ME)(c) for c in r[2])]
        ctx.check(len(r_few) == 1 and len(r_some) == 1 and len(r_none2) == 1 and len(rows) == 4, 'R1', 'target:table', f,
                  'None if len < min; Some(median) iff count(in band) >= min; None otherwise', 'calculate_height_target table: %s' % describe_table(rows))
        # band: closure filter (lo..=hi).contains(x), lo = median + behind(neg), hi = median + ahead, inclusive
        cl = [k for k in prog.children(f)]
        e = ex(prog, f)
        thr = P.cast(P.has(P.downcast('Continue', med)), 'i64')
        LO = P.has(P.cast(P.call('core::num::saturating_add', thr, P.param('blocks_behind_threshold')), 'u64'))
        HI = P.has(P.cast(P.call('core::num::saturating_add', thr, P.param('blocks_ahead_threshold')), 'u64'))
        okband = lo_ok = hi_ok = False
        if len(cl) == 1:
            k = cl[0]
            ctx.touch(k)
            ek = ex(prog, k)
            rr = ek.local(0)
            if P.call('core::ops::range::RangeInclusive::contains', P.anything, P.anything)(rr):
                rng = rr[2][0]
                ups = [x for x in walk(rng) if x[0] == 'upvar']
                okband = P.has(P.call('core::ops::range::RangeInclusive::new', P.anything, P.anything))(rng)
                new_ = [x for x in walk(rng) if P.call('core::ops::range::RangeInclusive::new', P.anything, P.anything)(x)]
                if new_:
                    lo_ok = P.has(P.captured(ek, LO))(new_[0][2][0])
                    hi_ok = P.has(P.captured(ek, HI))(new_[0][2][1])
        ctx.check(okband and lo_ok and hi_ok, 'R1', 'target:band', f, 'band = (median + (-behind)) ..= (median + ahead), inclusive on both ends', 'band construction not recognised (contains=%s lo=%s hi=%s)' % (okband, lo_ok, hi_ok))
    f = ctx.fn('R1', H + 'median')
    if f:
        g = cfg(f)
        e = ex(prog, f)
        rows = table(prog, f)
        none = [r for r in rows if P.agg(variant='None')(r[1]) and P.exactly(r[2], [P.binop('Eq', P.length(P.param('values')), P.const(0))])]
        srt = [c for c in f.calls() if not c.cleanup and c.matches('alloc::slice::sort', 'core::slice::sort_unstable')]
        idx = [c for c in f.calls() if not c.cleanup and c.matches('<alloc::vec::Vec as core::ops::index::Index>::index')]
        copy = [c for c in f.calls() if not c.cleanup and c.matches('alloc::slice::to_vec')]
        good = len(none) == 1 and bool(srt) and bool(copy) and len(idx) == 3 and all(g.dominates(srt[0].bb, i.bb) for i in idx)
        ctx.check(good, 'R1', 'median:sorted-copy', f, 'median sorts a copy before indexing; empty -> None', 'median does not sort a copy before indexing')
        mv = [x for l in range(len(f.locals)) if len(table(prog, f, l)) == 2 for x in table(prog, f, l)]
        LEN = P.length(P.param('values'))
        MID = P.binop('Div', LEN, P.const(2))
        V = P.anything
        even = P.binop('Div', P.binop('Add', P.index(V, P.binop('Sub', MID, P.const(1))), P.index(V, MID)), P.const(2))
        odd = P.index(V, MID)
        is_even = P.call('core::num::is_multiple_of', LEN, P.const(2))
        ok_e = any(even(x[1]) and any(is_even(c) for c in x[2]) for x in mv)
        ok_o = any(odd(x[1]) and any(P.not_(is_even)(c) for c in x[2]) for x in mv)
        ctx.check(ok_e and ok_o, 'R1', 'median:formula', f, 'even length -> (v[mid-1] + v[mid]) / 2; odd -> v[mid]; mid = len / 2', 'median formula: %s' % describe_table(mv))


def r2(ctx):
    prog = ctx.prog
    f = ctx.fn('R2', 'watchdog::api_access::synchronise_api_access::{closure#0}')
    if not f:
        return
    e = ex(prog, f)
    up = [c for c in f.calls_to('watchdog::api_access::update_api_access') if not c.cleanup]
    if not up:
        ctx.unknown('R2', 'update-site', f, 'update_api_access call not found')
        return
    conds = cond_exprs(prog, f, up[0].bb)
    tgt = P.call('watchdog::api_access::calculate_target', P.call('watchdog::health::health_status'))
    T = P.either(P.named('target'), tgt)
    some = any(P.call('core::option::Option::is_some', P.has(T))(c) or P.is_(T, 'Some')(c) for c in conds)
    differs = any(P.binop('Ne', P.has(T), P.anything)(c) or P.binop('Ne', P.anything, P.has(T))(c) for c in conds)
    ctx.check(some and differs, 'R2', 'gated', up[0], 'set_config is sent only if a target exists and differs from the actual flag', 'update_api_access runs under %s' % fmt_conds(conds)[:300])
    ctx.check(P.has(T)(e.operand(up[0].args[0])), 'R2', 'carries-target', up[0], 'the update carries the computed target', 'update carries %s' % show(e.operand(up[0].args[0]))[:200])
    # actual = fetched flag of this round
    ne = [c for c in conds if c[0] == 'bin' and c[1] == 'Ne']
    okact = any(P.has(P.call('watchdog::api_access::fetch_actual_api_access'))(c) or any(x[0] == 'var' and x[1] == 'actual' for x in walk(c)) for c in ne)
    ctx.check(okact, 'R2', 'compares-with-actual', up[0], 'the target is compared with the flag fetched from the canister in this round', 'target is not compared with the fetched flag')
    u = ctx.fn('R2', 'watchdog::api_access::update_api_access::{closure#0}')
    if u:
        aggs = [ex(prog, u).rvalue(st['rv']) for b in u.blocks for st in b['stmts'] if (st.get('rv') or {}).get('agg') == 'adt' and st['rv']['adt'].endswith('SetConfigRequest')]
        good = len(aggs) >= 1 and all(P.has(P.either(P.upvar('target'), P.param('target'), P.named('target')))(dict(a[4]).get('api_access')) for a in aggs) and \
            all(P.has(P.call('*::default'))(v) or k == 'api_access' for a in aggs for k, v in a[4])
        ctx.check(good, 'R2', 'request-only-api_access', u, 'the set_config request sets api_access = target and nothing else', 'set_config request: %s' % [show(a)[:200] for a in aggs])
        nm = [c for c in u.calls() if not c.cleanup and c.matches('ic_cdk::call::Call::unbounded_wait', 'ic_cdk::call::Call::bounded_wait')]
        meth = const_val(ex(prog, u).operand(nm[0].args[1])) if nm else None
        ctx.check(isinstance(meth, str) and meth.strip('"') == 'set_config', 'R2', 'method', nm[0] if nm else u, 'calls set_config', 'calls %s' % meth)


def r3(ctx):
    prog = ctx.prog
    f = ctx.fn('R3', 'watchdog::fetch_block_height::{closure#0}')
    if f:
        g = cfg(f)
        e = ex(prog, f)
        ins = [c for c in f.calls_to('watchdog::storage::insert_block_info') if not c.cleanup]
        sch = [c for c in f.calls_to('watchdog::storage::set_canister_height') if not c.cleanup]
        ok1 = len(ins) == 1 and g.in_loop(ins[0].bb) is not None
        conds = cond_exprs(prog, f, ins[0].bb) if ins else []
        # only the loop's own `next() is Some` (and the join! polling) may condition it
        plumbing = lambda c: c[0] == 'is' and (P.call(['*::next', '*::poll', '*::take_output', '*::branch'])(c[1]))
        extra = [c for c in conds if not plumbing(c)]
        bad_adapt = [c for c in f.calls() if not c.cleanup and c.matches('*::filter', '*::filter_map', '*::skip', '*::take', '*::take_while', '*::skip_while')]
        ctx.check(ok1 and not extra and not bad_adapt, 'R3', 'store-every-result', ins[0] if ins else f, 'every element of the fresh result list is stored unconditionally (overwriting the provider\'s previous entry)',
                  'insert_block_info is conditional: %s / adaptors %s' % (fmt_conds(extra)[:200], [c.short for c in bad_adapt]))
        conds2 = cond_exprs(prog, f, sch[0].bb) if sch else []
        extra2 = [c for c in conds2 if not plumbing(c)]
        ctx.check(len(sch) == 1 and not extra2, 'R3', 'canister-height-overwritten', sch[0] if sch else f, 'the canister height is overwritten unconditionally with this round\'s value (None on failure)',
                  'set_canister_height is conditional: %s' % fmt_conds(extra2)[:200])
    require_callers(ctx, 'R3', 'callers:insert_block_info', ['watchdog::storage::insert_block_info'], {'watchdog::fetch_block_height'})
    require_callers(ctx, 'R3', 'callers:set_canister_height', ['watchdog::storage::set_canister_height'], {'watchdog::fetch_block_height'})
    s = ctx.fn('R3', 'watchdog::storage::insert_block_info')
    if s:
        k = [c for c in prog.descendants(s)]
        okk = False
        for cl in k:
            for c in cl.calls():
                if c.matches('std::collections::hash::map::HashMap::insert', 'alloc::collections::btree::map::BTreeMap::insert') and not c.cleanup:
                    a = ex(prog, cl).operand(c.args[1])
                    okk = P.has(P.field('provider', P.anything))(a)
        ctx.check(okk, 'R3', 'keyed-by-provider', s, 'the store is keyed by provider name (insert overwrites)', 'block info store is not keyed by provider')
    fa = ctx.fn('R3', 'watchdog::fetch::fetch_all_providers_data::{closure#0}')
    if fa:
        e = ex(prog, fa)
        allowed = ('*::iter', '*::into_iter', '*::map', '*::zip', '*::collect', '*::next', '*::join_all', '*::into_future', '*::poll', '*::new_unchecked', '*::get_context', '*::from_iter', '*::size_hint')
        adapt = [c for c in fa.calls() if not c.cleanup and c.matches('*::filter', '*::filter_map', '*::skip', '*::take', '*::rev', '*::take_while', '*::skip_while', '*::step_by', '*::chain', '*::dedup*', '*::retain')]
        zp = [c for c in fa.calls() if not c.cleanup and c.matches('core::iter::traits::iterator::Iterator::zip')]
        ctx.check(not adapt and len(zp) == 1, 'R3', 'one-info-per-provider', zp[0] if zp else fa, 'results are paired with providers by zip with no filtering adaptor', 'adaptors between providers and results: %s' % [c.short for c in adapt])
        # BlockInfo built with height = value["height"].as_u64()
        okb = False
        for cl in prog.descendants(fa):
            r = ex(prog, cl).local(0)
            if P.agg('BlockInfo')(r):
                d = dict(r[4])
                okb = P.call('serde_json::value::Value::as_u64', P.index(P.anything, P.const('"height"')))(d.get('height')) and P.has(P.call('*::name'))(d.get('provider'))
                ctx.touch(cl)
        ctx.check(okb, 'R3', 'height-from-result', fa, 'BlockInfo.height = value["height"].as_u64() of this round\'s result; provider = provider.name()', 'BlockInfo is not built from this round\'s result')
    hs = ctx.fn('R3', 'watchdog::health::health_status')
    if hs:
        e = ex(prog, hs)
        cmpc = [c for c in hs.calls_to(H + 'compare') if not c.cleanup]
        good = bool(cmpc) and P.call('watchdog::storage::get_canister_height')(e.operand(cmpc[0].args[0])) and P.has(P.call('core::iter::traits::iterator::Iterator::filter_map'))(e.operand(cmpc[0].args[1]))
        okcl = False
        for cl in prog.descendants(hs):
            r = ex(prog, cl).local(0)
            if P.call('watchdog::storage::get_block_info', P.anything)(r):
                okcl = True
        ctx.check(good and okcl, 'R3', 'decision-reads-latest-store', hs, 'the decision reads the canister height and the per-provider store (latest round)', 'health_status reads other sources')


def r4(ctx):
    prog = ctx.prog
    f = ctx.fn('R4', H + 'calculate_height_target')
    if not f:
        return
    e = ex(prog, f)
    uses = []
    for c in f.calls():
        if c.cleanup:
            continue
        for a in c.args:
            if P.param('heights')(e.operand(a)):
                uses.append(c)
    okset = ('core::slice::len', 'watchdog::health::median', 'core::slice::iter')
    bad = [c for c in uses if not c.matches(*okset)]
    idx = [c for c in f.calls() if not c.cleanup and c.matches('*::index', '*::first', '*::last', '*::get') and P.has(P.param('heights'))(e.operand(c.args[0]))]
    # the iterator over heights feeds filter(..).count() only
    it = [c for c in f.calls() if not c.cleanup and c.matches('core::slice::iter')]
    cnt = [c for c in f.calls() if not c.cleanup and c.matches('*::count')]
    ctx.check(not bad and not idx and len(it) == 1 and len(cnt) == 1, 'R4', 'target:consumers', f, 'heights flow only into len, median (sorted copy) and filter(..).count()',
              'positional / order-sensitive use of heights: %s' % [c.short for c in bad + idx])
    m = ctx.fn('R4', H + 'median')
    if m:
        e2 = ex(prog, m)
        direct = [c for c in m.calls() if not c.cleanup and any(e2.operand(a) == ('param', 1, 'values') for a in c.args)]
        bad = [c for c in direct if not c.matches('core::slice::len', 'alloc::slice::to_vec')]
        ctx.check(not bad, 'R4', 'median:consumers', m, 'median reads its input only through len and a copy that is sorted', 'median uses its input positionally: %s' % [c.short for c in bad])


# plumbing between the interface and the analysed functions (rules/plumbing.py)
_run_before_plumbing = run


def run(ctx):
    _run_before_plumbing(ctx)
    from rules import plumbing
    plumbing.tick_order(ctx, 'R3')
