"""C10 — A block is admitted iff it is new, connected and valid; rejects are atomic (DESIGN §5 C10)."""
from sa import pat as P
from sa.cfg import cfg
from sa.expr import ex, show, walk, cond_exprs
from sa.util import (gate, table, fmt_conds, describe_table, the_closure, require_callers, require_writers, field_assignments,
                     cond_variants, return_blocks, panic_blocks, glob_any, is_panic_call)
from sa.dataflow import accesses, writers

EXPLANATION = (
    "Decides structurally: R1 validate-then-push — in state::insert_block the success edges of ValidationContext::new "
    "(parent in tree, not already known) and of BlockValidator::validate_block gate unstable_blocks::push, the only "
    "caller of push is insert_block, the only caller of insert_block is the response processor, the tree grows only "
    "through push; R2 no write through the state reference is reachable in insert_block before validation succeeded, "
    "validation receives shared references only, and insert_outpoints cannot return an error after its first write to "
    "the cache; R3 in the response processor a block that fails to decode or to insert increments exactly its error "
    "counter and returns — no path back to the loop over the remaining blocks nor to the announced-header insertion — "
    "and the stored response was taken out first; R4 in insert_next_block_headers decode / context / validation / insert "
    "failures return without inserting, validation gates insertion, duplicates are skipped; R5 inventory of potential "
    "trap sites reachable from the response processor in workspace code against a reviewed allow-list; R6 the validator that "
    "gates admission enforces header-then-body, the four body checks and uniqueness over all transactions (C12). "
    "Does NOT decide: the iff against an independent validity oracle; R5 is an inventory, not a proof of trap freedom.")
RULES = {
    'R1': 'GATE(ValidationContext::new => push), GATE(validate_block => push); CALLERS(push, insert_block, extend); AlreadyKnown iff any successor of the parent has the offered hash; get_chain_with_tip atom',
    'R2': 'no state write before the validation success edge; no Err after the first cache write in insert_outpoints',
    'R3': 'reject arms of the response processor: counter + return, NOPATH to loop header / announced headers',
    'R4': 'announced headers: every failure returns before insert; GATE(validate_header => insert_next_block_header)',
    'R5': 'PANICS(REACH(maybe_process_response)) in workspace code ⊆ reviewed allow-list',
    'R6': 'the block validator insert_block relies on enforces the body checks (= C12.R1-R3)',
    'R7': 'the header validator enforces the timestamp rules: median of up to 11 predecessors, 2h future bound at the current time (= C11.R1-R6)',
    'R8': 'stable headers the validator walks back over are stored before ingestion starts, independent of slicing (= C03.R2, C08.R6)',
}
ASSUMPTIONS = ['transaction-valid blocks (the property\'s stated domain): insert_outpoints\' expect on a missing input is outside the domain']
SS = 'ic_btc_canister::state::SyncingState'


def run(ctx):
    r1_r2_insert_block(ctx)
    rest(ctx)


def r1_r2_insert_block(ctx):
    prog = ctx.prog
    ib = ctx.fn('R1', 'ic_btc_canister::state::insert_block')
    if ib:
        g = cfg(ib)
        push = [c for c in ib.calls_to('ic_btc_canister::unstable_blocks::push') if not c.cleanup]
        vc = [c for c in ib.calls_to('ic_btc_canister::validation::ValidationContext::new') if not c.cleanup]
        vb = [c for c in ib.calls_to('ic_btc_validation::block::BlockValidator::validate_block') if not c.cleanup]
        ctx.saw_calls(len(ib.calls()))
        if not push:
            ctx.unknown('R1', 'push-site', ib, 'insert_block does not call unstable_blocks::push')
        else:
            for name, cs in (('context', vc), ('validate_block', vb)):
                if not cs:
                    ctx.bad('R1', 'gate:%s=>push' % name, push[0], 'insert_block pushes the block without calling %s' % name)
                    continue
                ok, why = gate(prog, ib, cs[0].bb, push[0].bb)
                ctx.check(ok, 'R1', 'gate:%s=>push' % name, push[0], 'push happens only on the success edge of %s (%s)' % (name, why),
                          'unstable_blocks::push is not gated by the success of %s: %s' % (name, why))
            # the pushed block is the validated one
            e = ex(prog, ib)
            pb = e.operand(push[0].args[2])
            vbarg = e.operand(vb[0].args[1]) if vb else None
            ctx.check(P.param('block')(pb) and vbarg is not None and P.has(P.param('block'))(vbarg), 'R1', 'same-block', push[0],
                      'the block pushed is the block that was validated', 'pushed %s but validated %s' % (show(pb), show(vbarg) if vbarg else None))
            # R2: writes through `state` only after validation
            ws = []
            for a in accesses(prog, 'ic_btc_canister::state::GenericState', None.__class__ and 'unstable_blocks', [ib]) + \
                    accesses(prog, 'ic_btc_canister::state::GenericState', 'utxos', [ib]) + \
                    accesses(prog, 'ic_btc_canister::state::GenericState', 'metrics', [ib]) + \
                    accesses(prog, 'ic_btc_canister::state::GenericState', 'stable_block_headers', [ib]) + \
                    accesses(prog, 'ic_btc_canister::state::GenericState', 'syncing_state', [ib]):
                if a.kind == 'write':
                    ws.append(a)
            early = []
            for w in ws:
                if vb:
                    ok, _ = gate(prog, ib, vb[0].bb, w.bb)
                    if not ok:
                        early.append(w)
            ctx.check(bool(vb) and not early, 'R2', 'no-write-before-validation', early[0] if early else ib,
                      'all %d writes through the state reference in insert_block lie behind the validation success edge' % len(ws),
                      'insert_block writes state at %s before validation has succeeded' % [w.where() for w in early])
            if vc:
                st = cfg(ib)
                # the context receives a shared borrow
                blk = ib.blocks[vc[0].bb]
                arg0 = vc[0].args[0]
                shared = True
                for b in ib.blocks:
                    for s_ in b['stmts']:
                        rv = s_.get('rv') or {}
                        if 'ref' in rv and rv.get('mut') and s_['dst']['l'] == (arg0.get('move') or arg0.get('copy') or {}).get('l'):
                            shared = False
                ctx.check(shared, 'R2', 'validation-gets-shared-ref', vc[0], 'the validation context borrows the state immutably', 'validation context receives &mut State')


def rest(ctx):
    prog = ctx.prog
    require_callers(ctx, 'R1', 'callers:push', ['ic_btc_canister::unstable_blocks::push'], {'ic_btc_canister::state::insert_block'})
    require_callers(ctx, 'R1', 'callers:insert_block', ['ic_btc_canister::state::insert_block'], {'ic_btc_canister::heartbeat::maybe_process_response'})
    require_callers(ctx, 'R1', 'callers:extend', ['ic_btc_canister::blocktree::BlockTree::extend', 'ic_btc_canister::blocktree::BlockTree::extend_cached',
                                                   'ic_btc_canister::blocktree::BlockTree::extend_with_metrics'],
                    {'ic_btc_canister::unstable_blocks::push', 'ic_btc_canister::blocktree::BlockTree::extend*', 'ic_btc_canister::blocktree::extend*',
                     'ic_btc_canister::blocktree::BlockTree::*'})
    dup_check(ctx)
    r2_outpoints(ctx)
    r3(ctx)
    r4(ctx)
    r5(ctx)
    # R6: "valid" includes the body checks: the validator insert_block relies on gates acceptance on the
    # four body checks and on uniqueness over all transactions (shared with C12.R1-R3)
    from sa.engine import SubCtx
    from rules import c12
    c12.run(SubCtx(ctx, {'R1': 'R6', 'R2': 'R6', 'R3': 'R6'}))
    # R7: "valid at the current time" includes the header's timestamp rules: the header validator that
    # insert_block and insert_next_block_headers rely on rejects a header that is not later than the
    # median of its (up to) 11 predecessors or more than 2h ahead of the current time (shared with C11)
    from rules import c11
    c11.run(SubCtx(ctx, {'R%d' % i: 'R7' for i in range(1, 7)}))
    # R8: header validation of the next block walks back over stable headers: the header of every
    # stabilised block is stored, on the fresh path and on the resumed (time-sliced) path alike, before
    # its ingestion starts (shared with C03.R2 / C08.R6) — otherwise the next valid block traps the
    # heartbeat ("previous header should be in the header store")
    from rules import c03, c08
    c03.r2(SubCtx(ctx, {'R2': 'R8'}))
    c08.r6(SubCtx(ctx, {'R6': 'R8'}))


def dup_check(ctx, rule='R1'):
    """"not already present": ValidationContext::new refuses a block whose hash equals that of ANY
    block already attached to the same parent (all successors of the parent, not a sample of them)"""
    prog = ctx.prog
    f = ctx.fn(rule, 'ic_btc_canister::validation::ValidationContext::new')
    if not f:
        return
    rows = table(prog, f)
    SUCC = P.has(P.call('ic_btc_canister::unstable_blocks::get_chain_with_tip', P.anything, P.anything))
    ANY = lambda e: isinstance(e, tuple) and e[0] == 'call' and e[1].endswith('::any') and len(e[2]) == 2 and P.call('core::slice::iter', SUCC)(e[2][0])
    ok_rows = [r for r in rows if P.agg(variant='Ok')(r[1])]
    dup_rows = [r for r in rows if P.agg(variant='Err', _0=P.agg(variant='AlreadyKnown'))(r[1])]
    good = len(ok_rows) == 1 and any(P.not_(ANY)(c) for c in ok_rows[0][2]) and len(dup_rows) == 1 and any(ANY(c) for c in dup_rows[0][2])
    # the predicate compares each successor's hash with the offered block's hash
    pred_ok = False
    for k in prog.children(f):
        r = ex(prog, k).local(0)
        if P.binop('Eq', P.call('*::block_hash', P.param()), P.anything)(r) or P.binop('Eq', P.anything, P.call('*::block_hash', P.param()))(r):
            src = [x for x in walk(r) if isinstance(x, tuple) and x[0] == 'upvar']
            pred_ok = pred_ok or any(P.captured(ex(prog, k), P.has(P.call('*::block_hash', P.param('header'))))(x) for x in src)
    from rules import atoms
    atoms.chain_with_tip(ctx, rule)
    ctx.check(good and pred_ok, rule, 'duplicate-check-all-successors', f,
              'AlreadyKnown iff any successor of the parent has the offered block\'s hash; Ok only if none has',
              'the duplicate check does not cover every block already attached to the parent (rows: %s)' % describe_table(ok_rows + dup_rows))


def r2_outpoints(ctx):
    prog = ctx.prog
    f = ctx.fn('R2', 'ic_btc_canister::unstable_blocks::outpoints_cache::insert_outpoints')
    if not f:
        return
    g = cfg(f)
    OC = 'ic_btc_canister::unstable_blocks::outpoints_cache::OutPointsCache'
    ws = []
    for fld in ('tx_outs', 'added_outpoints', 'removed_outpoints'):
        ws += [a for a in writers(prog, OC, fld, [f] + prog.descendants(f))]
    ws_here = [w for w in ws if w.fn.id == f.id]
    errs = [bb for bb, e, _ in table(prog, f) if not P.agg(variant='Ok')(e)]
    # fallible calls inside closures (`ok_or_else(..)?`) surface as from_residual rows in f itself
    bad = [(w, eb) for w in ws_here for eb in errs if g.reaches(w.bb, eb)]
    ctx.check(bool(ws_here) and bool(errs) and not bad, 'R2', 'outpoints:no-error-after-write', bad[0][0] if bad else f,
              'insert_outpoints writes the shared cache (%d sites) only where no error return is reachable any more' % len(ws_here),
              'insert_outpoints can return an error after having modified the cache (write at %s)' % (bad[0][0].where() if bad else '?'))


def r3(ctx):
    prog = ctx.prog
    mp = ctx.fn('R3', 'ic_btc_canister::heartbeat::maybe_process_response')
    if not mp:
        return
    cl = the_closure(prog, mp, ctx, 'R3')
    if not cl:
        return
    ctx.touch(cl)
    g = cfg(cl)
    e = ex(prog, cl)
    takes = [c for c in cl.calls_to('core::option::Option::take') if not c.cleanup]
    dec = [c for c in cl.calls() if not c.cleanup and c.matches('*::consensus_decode', 'bitcoin::consensus::encode::deserialize')]
    ins = [c for c in cl.calls_to('ic_btc_canister::state::insert_block') if not c.cleanup]
    hdrs = [c for c in cl.calls_to('ic_btc_canister::state::insert_next_block_headers') if not c.cleanup]
    if not (takes and dec and ins and hdrs):
        ctx.unknown('R3', 'anchors', cl, 'response processor anchors missing (take=%d decode=%d insert=%d headers=%d)' % (len(takes), len(dec), len(ins), len(hdrs)))
        return
    ctx.check(all(g.dominates(takes[0].bb, x.bb) for x in dec + ins + hdrs) and P.has(P.field('response_to_process'))(e.operand(takes[0].args[0])),
              'R3', 'response-taken-first', takes[0], 'the stored response is taken out of the state before it is processed', 'response is not taken before processing')
    ok, why = gate(prog, cl, dec[0].bb, ins[0].bb)
    ctx.check(ok, 'R3', 'gate:decode=>insert', ins[0], 'insert_block runs only on a successfully decoded block (%s)' % why, 'insert_block is not gated by decode success: %s' % why)
    loop_h = g.in_loop(ins[0].bb)
    if loop_h is None:
        ctx.unknown('R3', 'loop', cl, 'block loop not found around insert_block')
        return
    for name, call, counter in (('decode', dec[0], 'num_block_deserialize_errors'), ('insert', ins[0], 'num_insert_block_errors')):
        fa = field_assignments(prog, cl, SS, counter)
        incs = [(bb, x) for bb, _, x in fa if x[0] == 'bin' and x[1] == 'Add' and ('const', 1) in (x[2], x[3])]
        if len(incs) != 1:
            ctx.bad('R3', 'reject:%s:counter' % name, call, 'a failing %s does not increment %s exactly once by 1 (found %d increments)' % (name, counter, len(incs)))
            continue
        ibb = incs[0][0]
        # the increment lies on the failure arm of `call`
        okg, _ = gate(prog, cl, call.bb, ibb)
        ctx.check(g.dominates(call.bb, ibb) and not okg, 'R3', 'reject:%s:counter' % name, cl.where(ibb),
                  '%s += 1 exactly on the failure arm of %s' % (counter, name), '%s is incremented on the success path of %s' % (counter, name))
        # failing arm start: the switch successor(s) from which the success continuation is unreachable
        cont = ins[0].bb if name == 'decode' else None
        back = g.reaches_strict(ibb, loop_h) or any(g.reaches(ibb, h.bb) for h in hdrs) or g.reaches(ibb, ins[0].bb) and name == 'decode'
        # all paths from the failure arm reach return without the loop header / header insertion
        fail_entry = None
        x = ibb
        idom = g.idom()
        while x != call.bb and x in idom and x != 0:
            p = idom[x]
            if cl.blocks[p]['term']['k'] == 'switch':
                fail_entry = x
            x = p
        ok_np = not back
        ctx.check(ok_np, 'R3', 'reject:%s:drops-rest' % name, cl.where(ibb),
                  'after a failing %s the function returns: no path back to the block loop or to insert_next_block_headers' % name,
                  'after a failing %s processing continues with the remaining blocks / announced headers of the response' % name)
        # every path from the failure arm entry passes the counter (no silent failure path)
        if fail_entry is not None:
            passes = g.all_paths_pass(fail_entry, [ibb], exits=return_blocks(cl) + [loop_h])
            ctx.check(passes, 'R3', 'reject:%s:always-counted' % name, cl.where(fail_entry), 'every path of the failure arm of %s passes the counter increment' % name,
                      'some path of the failure arm of %s skips the error counter' % name)
    # headers processed only after all blocks were inserted (loop exhausted)
    conds = cond_exprs(prog, cl, hdrs[0].bb)
    ctx.check(any(c[0] == 'is' and c[2] == ('None',) and P.has(P.call('*::next'))(c[1]) for c in conds), 'R3', 'headers-after-all-blocks', hdrs[0],
              'announced headers are processed only when the block loop ran to exhaustion', 'announced headers are processed under %s' % fmt_conds(conds))


def r4(ctx):
    prog = ctx.prog
    f = ctx.fn('R4', 'ic_btc_canister::state::insert_next_block_headers')
    if not f:
        return
    g = cfg(f)
    e = ex(prog, f)
    dec = [c for c in f.calls() if not c.cleanup and c.matches('*::consensus_decode', 'bitcoin::consensus::encode::deserialize')]
    has = [c for c in f.calls_to('ic_btc_canister::unstable_blocks::GenericUnstableBlocks::has_next_block_header') if not c.cleanup]
    andthen = [c for c in f.calls_to('core::result::Result::and_then') if not c.cleanup]
    vctx = [c for c in f.calls_to('ic_btc_canister::validation::ValidationContext::new_with_next_block_headers') if not c.cleanup]
    ins = [c for c in f.calls_to('ic_btc_canister::unstable_blocks::GenericUnstableBlocks::insert_next_block_header') if not c.cleanup]
    ctx.saw_calls(len(f.calls()))
    if not (dec and ins and vctx):
        ctx.unknown('R4', 'anchors', f, 'anchors missing in insert_next_block_headers (decode=%d ctx=%d insert=%d)' % (len(dec), len(vctx), len(ins)))
        return
    ok, why = gate(prog, f, dec[0].bb, ins[0].bb)
    ctx.check(ok, 'R4', 'gate:decode=>insert', ins[0], 'a header is inserted only if it decoded (%s)' % why, 'insert is not gated by decode: %s' % why)
    # validation: context -> and_then(closure validating) -> result gates insert
    validated = False
    why = 'no validation result gates the insertion'
    val_calls = [c for c in f.calls() if not c.cleanup and c.matches('ic_btc_validation::header::HeaderValidator::validate_header')]
    if val_calls:
        okc, w1 = gate(prog, f, vctx[0].bb, ins[0].bb)
        okv, w2 = gate(prog, f, val_calls[0].bb, ins[0].bb)
        validated, why = okc and okv, '%s; %s' % (w1, w2)
    elif andthen:
        cls = [prog.fns[c] for c in andthen[0].closure_args() if c in prog.fns]
        inner = [c for k in cls for c in k.calls() if c.matches('ic_btc_validation::header::HeaderValidator::validate_header')]
        src = e.operand(andthen[0].args[0])
        okv, w2 = gate(prog, f, andthen[0].bb, ins[0].bb)
        ret_ok = False
        for k in cls:
            r = ex(prog, k).local(0)
            ret_ok = ret_ok or P.has(P.call('ic_btc_validation::header::HeaderValidator::validate_header'))(r)
            ctx.touch(k)
        validated = bool(inner) and okv and ret_ok and P.has(P.call('ic_btc_canister::validation::ValidationContext::new_with_next_block_headers'))(src)
        why = 'context.and_then(|store| validate_header(..)) result: %s' % w2
    ctx.check(validated, 'R4', 'gate:validate=>insert', ins[0], 'a header is inserted only if context creation and validate_header succeeded (%s)' % why,
              'insert_next_block_header is not gated by header validation: %s' % why)
    # validated header == inserted header == decoded header
    hv = [c for k in [f] + prog.descendants(f) for c in k.calls() if c.matches('ic_btc_validation::header::HeaderValidator::validate_header')]
    same = False
    if hv:
        a = ex(prog, hv[0].fn).operand(hv[0].args[1])
        b = e.operand(ins[0].args[1])
        same = (P.has(P.named('block_header'))(a) or P.has(P.call('*::consensus_decode'))(a)) and (P.has(P.call('*::consensus_decode'))(b) or P.has(P.named('block_header'))(b))
    ctx.check(same, 'R4', 'same-header', ins[0], 'the header inserted is the header decoded and validated', 'validated and inserted headers differ')
    # every failure returns (no path from a failure arm to insert or to the loop header)
    loop_h = g.in_loop(ins[0].bb)
    rets = return_blocks(f)
    sites = [('decode', dec[0])] + ([('validation', andthen[0])] if andthen else [('validation', val_calls[0])] if val_calls else []) + [('insert', ins[0])]
    for name, c in sites:
        # failure successors of the first switch on c's result
        from sa.util import ADAPTORS
        t = None
        for s in range(len(f.blocks)):
            pass
        fail_blocks = failure_arm(prog, f, c)
        if not fail_blocks:
            ctx.unknown('R4', 'fail-returns:' + name, c, 'failure arm of %s not recognised' % name)
            continue
        back = [fb for fb in fail_blocks if (loop_h is not None and g.reaches(fb, loop_h)) or g.reaches(fb, ins[0].bb)]
        ctx.check(not back, 'R4', 'fail-returns:' + name, c, 'a failing %s returns: the remaining announced headers are dropped and nothing is inserted' % name,
                  'after a failing %s the loop over announced headers continues' % name)
    if has:
        # duplicates: skipped, not validated again, not inserted twice
        tb = [i for i in range(len(f.blocks)) if any(c == ('call', 'ic_btc_canister::unstable_blocks::GenericUnstableBlocks::has_next_block_header', ()) or
              (c[0] == 'call' and c[1].endswith('has_next_block_header')) for c in cond_exprs(prog, f, i))]
        dup_ok = not any(c[0] == 'call' and c[1].endswith('has_next_block_header') for c in cond_exprs(prog, f, ins[0].bb)) and \
            any(c[0] == 'un' and c[1] == 'Not' and c[2][0] == 'call' and c[2][1].endswith('has_next_block_header') for c in cond_exprs(prog, f, ins[0].bb))
        ctx.check(dup_ok, 'R4', 'duplicates-skipped', has[0], 'an already announced header is skipped (insert only under !has_next_block_header)', 'insertion is not conditional on !has_next_block_header')


def failure_arm(prog, f, c):
    """entry blocks of the failure arm(s) of the first switch on the result of call c."""
    from sa.util import _adaptor_call, place_of_local
    from sa.dataflow import flow_forward
    from sa.expr import switch_info
    g = cfg(f)
    t = f.blocks[c.bb]['term']
    if t.get('dst') is None:
        return []
    tainted = flow_forward(f, {t['dst']['l']}, through_calls=_adaptor_call)
    best = None
    for s in range(len(f.blocks)):
        tt = f.blocks[s]['term']
        if tt['k'] != 'switch' or not g.dominates(c.bb, s):
            continue
        p = place_of_local(tt['discr'])
        if p is None or p not in tainted:
            continue
        if best is None or g.dominates(s, best):
            best = s
    if best is None:
        return []
    e, kind, labels, adt = switch_info(prog, f, best)
    out = []
    tt = f.blocks[best]['term']
    arms = [(v, b) for v, b in tt['targets']] + [('otherwise', tt['otherwise'])]
    if kind == 'enum':
        listed = {labels.get(v, v) for v, _ in arms if v != 'otherwise'}
        for v, b in arms:
            lab = labels.get(v, None)
            if v == 'otherwise':
                rest = set(labels.values()) - listed
                if f.blocks[b]['term']['k'] != 'unreachable' and rest & {'Err', 'None', 'Break'}:
                    out.append(b)
            elif lab in ('Err', 'None', 'Break'):
                out.append(b)
    return out


def r5(ctx):
    import json, os
    prog = ctx.prog
    spec_path = os.path.join(os.path.dirname(os.path.dirname(os.path.abspath(__file__))), 'spec', 'c10_trap_sites.json')
    if not os.path.exists(spec_path):
        ctx.unknown('R5', 'spec', '', 'spec/c10_trap_sites.json missing')
        return
    spec = json.load(open(spec_path))
    allowed = {(x['fn'], x['kind'], x['what']) for x in spec['allowed']}
    mp = ctx.fn('R5', 'ic_btc_canister::heartbeat::maybe_process_response')
    if not mp:
        return
    reach = prog.reach([mp])
    found = set()
    for f in reach.values():
        ctx.touch(f)
        for k in trap_sites(prog, f):
            if k[1] == 'assert' and k[2] == 'Overflow':
                continue  # debug-profile only: release builds of the canister wrap
            found.add(k)
    extra = sorted(found - allowed)
    for k in extra:
        ctx.bad('R5', 'trap:%s|%s|%s' % k, k[0], 'new potential trap site on the untrusted-bytes path: %s in %s (%s) — not in the reviewed allow-list' % (k[2], k[0], k[1]))
    if not extra:
        ctx.ok('R5', 'trap-inventory', mp, '%d potential trap sites in %d workspace functions reachable from the response processor, all in the reviewed allow-list' % (len(found), len(reach)))
    ctx.floor('R5', 'functions reachable from maybe_process_response', len(reach), 60)


TRAP_CALLS = ('core::option::Option::unwrap', 'core::option::Option::expect', 'core::result::Result::unwrap', 'core::result::Result::expect',
              'core::result::Result::unwrap_err', 'core::result::Result::expect_err', 'core::option::Option::unwrap_or_else')


def trap_sites(prog, f):
    """(fn short, kind, what) keys — no line numbers — of potential trap sites in f."""
    out = []
    for c in f.calls():
        if c.cleanup:
            continue
        if is_panic_call(c):
            out.append((prog.root_of(f).short, 'panic', c.short.rsplit('::', 1)[-1]))
        elif c.matches(*TRAP_CALLS[:6]):
            e = ex(prog, f).operand(c.args[0])
            what = c.short.rsplit('::', 2)[-2] + '::' + c.short.rsplit('::', 1)[-1]
            src = e[1] if isinstance(e, tuple) and e[0] == 'call' else e[0] if isinstance(e, tuple) else '?'
            out.append((prog.root_of(f).short, 'unwrap', '%s on %s' % (what, src.rsplit('::', 2)[-2] + '::' + src.rsplit('::', 1)[-1] if '::' in str(src) else src)))
        elif c.matches('<* as core::ops::index::Index>::index', '<* as core::ops::index::IndexMut>::index_mut'):
            out.append((prog.root_of(f).short, 'index', c.short))
    for i, b in enumerate(f.blocks):
        t = b['term']
        if t['k'] == 'assert' and not b.get('cleanup'):
            out.append((prog.root_of(f).short, 'assert', t['msg']))
    return out
