"""C04 — min_confirmations cuts the view at the last sufficiently buried block (DESIGN §5 C04)."""
from sa import pat as P
from sa.cfg import cfg
from sa.expr import ex, show, walk, cond_exprs, const_val
from sa.util import table, fmt_conds, describe_table, local_assignments, glob_any
from rules.walks import *

EXPLANATION = (
    "Decides structurally, in get_utxos_from_chain (and, for the bound check, get_balance_private): R1 the bound check "
    "— MinConfirmationsTooLarge{given: c, max: chain.len()} exactly when chain.len() < c, before the walk; R2 the prefix "
    "cut — a block is refused exactly when get_stability_count(depths[i], hash_i) < c as i32 (strict), the refusal leaves "
    "the loop for good (no path back to the loop header), so no later block is applied; R3 the count formula — "
    "get_stability_count = depth of the entry whose hash equals the target - max depth of the entries whose hash "
    "differs, both starting from 0, over the whole slice, and the table passed is "
    "block_hashes_with_depths_by_heights()[i] with the chain index i; R4 label/apply coupling — tip hash, tip height "
    "(next_height + i) and apply_block are updated together under the same condition, initialised to the anchor; R5 "
    "the depth helper returns 1 + max over children and records (hash, depth) at index `height`. "
    "Does NOT decide: that the returned set equals the ledger at the cut block; trees where depth and difficulty "
    "disagree beyond this structure.")
RULES = {
    'R1': 'PRED(MinConfirmationsTooLarge) and its payload; GATE over the walk',
    'R2': 'PRED(refuse block i), strictness, NOPATH(refusal ⇝ loop header)',
    'R3': 'EXPR of get_stability_count and of its table argument',
    'R4': 'co-location of tip label updates and apply_block; initial values',
    'R5': 'EXPR of the depth helper',
    'R6': 'the page token of a filtered response names the cut tip B (= C06.R1)',
    'R7': 'the public request reaches the walk unchanged: address, min_confirmations and both spellings of each filter variant are carried into the internal request',
}
ASSUMPTIONS = ['depths and confirmation counts fit i32 (no wrap in `as i32`)']


def run(ctx):
    _run(ctx)
    # R6: the answer is "as of block B" on every page: the page token a filtered response hands out names
    # the cut tip B it reports, not the best tip (shared with C06.R1)
    from sa.engine import SubCtx
    from rules import c06
    c06.run(SubCtx(ctx, {'R1': 'R6'}))


def _run(ctx):
    prog = ctx.prog
    f = ctx.fn('R1', GU + 'get_utxos_from_chain')
    if f:
        e = ex(prog, f)
        g = cfg(f)
        rows = table(prog, f)
        C = P.param('min_confirmations')
        LEN = P.call('ic_btc_canister::blocktree::BlockChain::len', P.param('chain'))
        err = [r for r in rows if P.agg(variant='Err', _0=P.agg(variant='MinConfirmationsTooLarge', given=C, max=P.cast(LEN, 'u32')))(r[1])]
        good = len(err) == 1 and any(P.binop('Lt', LEN, P.cast(C, 'usize'))(c) for c in err[0][2])
        ctx.check(good, 'R1', 'utxos:bound-check', f.where(err[0][0]) if err else f, 'MinConfirmationsTooLarge{given: c, max: chain.len()} exactly when chain.len() < c', 'bound check rows: %s' % describe_table(err))
        k, ap, h = find_walk(prog, f, ['ic_btc_canister::address_utxoset::AddressUtxoSet::apply_block'])
        if ap is None:
            ctx.unknown('R2', 'walk', f, 'chain walk (loop around apply_block) not found')
            return
        ctx.check(any(P.binop('Le', P.cast(C, 'usize'), LEN)(c) for c in cond_exprs(prog, f, ap.bb)), 'R1', 'utxos:bound-gates-walk', ap, 'the walk runs only when c <= chain.len()', 'walk is not gated by the bound check')
        # R2
        d = cut_literals(prog, f, ap.bb)
        want = P.binop('Le', P.cast(C, 'i32'), STAB)
        flat = [c for conj in (d or []) for c in conj]
        ok_lit = d is not None and any(want(c) for c in flat)
        ctx.check(ok_lit, 'R2', 'utxos:cut-predicate', ap, 'block i is applied only if get_stability_count(depths[i], hash_i) >= c as i32 (refused iff <, strict)',
                  'admission literals of the walk: %s' % [[show(c)[:200] for c in conj] for conj in (d or [])][:3])
        other = [c for c in flat if not want(c) and not P.binop('Le', C, P.const(0))(c) and not P.binop('Lt', P.const(0), C)(c) and not P.binop('Eq', C, P.const(0))(c) and not P.binop('Ne', C, P.const(0))(c)]
        ctx.check(not other, 'R2', 'utxos:no-other-cut', ap, 'no other condition cuts the walk', 'additional admission conditions: %s' % [show(c)[:200] for c in other])
        # refusal leaves the loop: from a refusing arm there is no path back to the loop header
        refusing = [(s, b) for s, b in g.refusing_targets(h, ap.bb)
                    if not (cond_exprs(prog, f, b) and cond_exprs(prog, f, b)[-1][0] == 'is' and cond_exprs(prog, f, b)[-1][2] == ('None',) and P.call('*::next')(cond_exprs(prog, f, b)[-1][1]))]
        back = [(s, b) for s, b in refusing if g.reaches(b, h)]
        ctx.check(bool(refusing) and not back, 'R2', 'utxos:refusal-ends-walk', ap, 'once a block is refused the loop is left (no path back to the loop header): no later block is applied',
                  'after a refused block the walk continues with later blocks')
        # R4
        from sa.util import find_locals, is_var
        NH = P.call('ic_btc_canister::utxo_set::UtxoSet::next_height', P.field('utxos', P.param('state')))
        HASH0 = P.call('<ic_btc_canister::blocktree::CachedBlock as ic_btc_canister::blocktree::ChainBlock>::block_hash', P.call('ic_btc_canister::blocktree::BlockChain::first', P.param('chain')))
        tips = {}
        for nm, init in (('tip_block_hash', HASH0), ('tip_block_height', NH)):
            ls = find_locals(prog, f, lambda x, l, init=init: init(x), lambda x, l, init=init: not init(x))
            tips[nm] = table(prog, f, ls[0]) if len(ls) == 1 else []
        okc = True
        why = ''
        for nm, rows_ in tips.items():
            inloop = [r for r in rows_ if r[0] in g.loop_blocks(h) or g.dominates(h, r[0])]
            init = [r for r in rows_ if r not in inloop]
            if len(inloop) != 1 or len(init) != 1:
                okc, why = False, '%s has %d updates in the walk and %d initialisations' % (nm, len(inloop), len(init))
                continue
            same = cond_exprs(prog, f, inloop[0][0]) == cond_exprs(prog, f, ap.bb)
            if not same:
                okc, why = False, '%s is updated under other conditions than apply_block' % nm
        hv = [r for r in tips.get('tip_block_height', []) if g.dominates(h, r[0])]
        okh = len(hv) == 1 and P.binop('Add', NH, P.cast(IDX, 'u32'))(hv[0][1])
        hh = [r for r in tips.get('tip_block_hash', []) if g.dominates(h, r[0])]
        okhh = len(hh) == 1 and P.call('<ic_btc_canister::blocktree::CachedBlock as ic_btc_canister::blocktree::ChainBlock>::block_hash', BLK)(hh[0][1])
        apa = e.operand(ap.args[1])
        okap = P.call('<ic_btc_canister::blocktree::CachedBlock as ic_btc_canister::blocktree::ChainBlock>::block_hash', BLK)(apa)
        ctx.check(okc and okh and okhh and okap, 'R4', 'utxos:label-apply-coupling', ap, 'tip hash = hash_i, tip height = next_height + i and apply_block(hash_i) happen together',
                  'label/apply coupling broken: %s (height=%s hash=%s apply=%s)' % (why, okh, okhh, okap))
        i0 = [r for r in tips.get('tip_block_height', []) if not g.dominates(h, r[0])]
        h0 = [r for r in tips.get('tip_block_hash', []) if not g.dominates(h, r[0])]
        good = len(i0) == 1 and NH(i0[0][1]) and len(h0) == 1 and P.call('<ic_btc_canister::blocktree::CachedBlock as ic_btc_canister::blocktree::ChainBlock>::block_hash', P.call('ic_btc_canister::blocktree::BlockChain::first', P.param('chain')))(h0[0][1])
        ctx.check(good, 'R4', 'utxos:initial-tip', f, 'before the walk the tip is the anchor: (chain.first().block_hash(), next_height)', 'initial tip label is not the anchor')
        # iteration: chain.into_chain().iter().enumerate(), no adaptor
        it = [c for c in f.calls() if not c.cleanup and c.matches('core::iter::traits::iterator::Iterator::enumerate')]
        good = len(it) == 1 and P.call('core::slice::iter', P.call('ic_btc_canister::blocktree::BlockChain::into_chain', P.param('chain')))(e.operand(it[0].args[0]))
        bad = [c for c in f.calls() if not c.cleanup and c.matches('*::skip', '*::rev', '*::step_by', '*::filter') and g.dominates(c.bb, h)]
        ctx.check(good and not bad, 'R4', 'utxos:walk-order', it[0] if it else f, 'the walk enumerates chain.into_chain() from the anchor upwards', 'walk iteration is not chain.into_chain().iter().enumerate()')
    # R3
    sc = ctx.fn('R3', GU + 'get_stability_count')
    if sc:
        e = ex(prog, sc)
        r = e.local(0)
        from sa.util import find_locals, is_var
        it = P.call('<core::slice::iter::Iter as core::iter::traits::iterator::Iterator>::next', P.call('core::slice::iter', P.param('blocks_with_depths_on_the_same_height')))
        H_, D_ = P.field('0', P.field('0', P.downcast('Some', it))), P.field('1', P.field('0', P.downcast('Some', it)))
        tb = P.param('target_block')
        lm = find_locals(prog, sc, lambda x, l: const_val(x) == 0, lambda x, l: P.call('max', D_, is_var(l))(x))
        lt = find_locals(prog, sc, lambda x, l: const_val(x) == 0, lambda x, l: D_(x))
        T = is_var(lt[0]) if len(lt) == 1 else (lambda e: False)
        M = is_var(lm[0]) if len(lm) == 1 else (lambda e: False)
        ctx.check(P.binop('Sub', P.cast(T, 'i32'), P.cast(M, 'i32'))(r), 'R3', 'count:formula', sc, 'stability count = target depth - max depth of the others (as i32)', 'stability count = %s' % show(r))
        rows_m = table(prog, sc, lm[0]) if len(lm) == 1 else []
        rows_t = table(prog, sc, lt[0]) if len(lt) == 1 else []
        okm = any(P.call('max', D_, M)(x[1]) and any(P.binop('Ne', H_, tb)(c) for c in x[2]) for x in rows_m) and any(const_val(x[1]) == 0 for x in rows_m) and len(rows_m) == 2
        okt = any(D_(x[1]) and any(P.binop('Eq', H_, tb)(c) for c in x[2]) for x in rows_t) and any(const_val(x[1]) == 0 for x in rows_t) and len(rows_t) == 2
        ctx.check(okm and okt, 'R3', 'count:accumulators', sc, 'max is taken over entries with hash != target, the target depth from the entry with hash == target; both start at 0',
                  'accumulators: max=%s target=%s' % (describe_table(rows_m), describe_table(rows_t)))
        bad = [c for c in sc.calls() if not c.cleanup and c.matches('*::skip', '*::take', '*::rev', '*::filter', '*::step_by')]
        ctx.check(not bad, 'R3', 'count:whole-slice', sc, 'the whole slice is scanned', 'slice scan restricted by %s' % [c.short for c in bad])
    # R5
    hp = ctx.fn('R5', 'ic_btc_canister::blocktree::BlockTree::block_hashes_with_depths_by_heights_helper')
    if hp:
        e = ex(prog, hp)
        g = cfg(hp)
        from sa.util import counter_local, is_var
        ld = counter_local(prog, hp, 0, 1)
        D = is_var(ld[0]) if len(ld) == 1 else (lambda e: False)
        rows_d = table(prog, hp, ld[0]) if len(ld) == 1 else []
        rec = P.call('ic_btc_canister::blocktree::BlockTree::block_hashes_with_depths_by_heights_helper', P.anything, P.anything, P.binop('Add', P.param('height'), P.const(1)))
        good = any(const_val(x[1]) == 0 for x in rows_d) and any(P.call('max', D, rec)(x[1]) for x in rows_d) and any(P.binop('Add', D, P.const(1))(x[1]) for x in rows_d) and len(rows_d) == 3
        ctx.check(good, 'R5', 'depth:formula', hp, 'depth = 1 + max over children of the child depth (children visited at height + 1)', 'depth updates: %s' % describe_table(rows_d))
        push = [c for c in hp.calls() if not c.cleanup and c.matches('alloc::vec::Vec::push')]
        okp = False
        if len(push) == 1:
            tgt, val = e.operand(push[0].args[0]), e.operand(push[0].args[1])
            okp = P.index(P.param('blocks_with_depth_by_height'), P.param('height'))(tgt) and P.agg(_0=P.call('*::block_hash', P.field('root', P.param('self'))), _1=D)(val)
            inc = [x for x in rows_d if P.binop('Add', D, P.const(1))(x[1])]
            okp = okp and bool(inc) and g.dominates(inc[0][0], push[0].bb)
        ctx.check(okp, 'R5', 'depth:recorded', push[0] if push else hp, '(root hash, depth) is recorded at index `height` after the depth is final', 'depth record not recognised')
    # balance bound check (R1, sibling)
    fb = ctx.fn('R1', GB + 'get_balance_private')
    if fb:
        okb = False
        for k in prog.descendants(fb):
            rows = table(prog, k)
            LENM = P.call('ic_btc_canister::blocktree::BlockChain::len', P.anything)
            C2 = P.either(P.upvar('min_confirmations'), P.named('min_confirmations'))
            err = [r for r in rows if P.agg(variant='Err', _0=P.agg(variant='MinConfirmationsTooLarge', given=C2, max=P.cast(LENM, 'u32')))(r[1]) and any(P.binop('Lt', LENM, P.cast(C2, 'usize'))(c) for c in r[2])]
            if len(err) == 1:
                okb = True
                ctx.touch(k)
        ctx.check(okb, 'R1', 'balance:bound-check', fb, 'get_balance refuses c > chain.len() with the same error and payload', 'get_balance bound check not found / different')


# plumbing between the interface and the analysed functions (rules/plumbing.py)
_run_before_plumbing = run


def run(ctx):
    _run_before_plumbing(ctx)
    from rules import plumbing
    plumbing.request_conversions(ctx, 'R7')
