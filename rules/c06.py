"""C06 — Paginated UTXO answers form one consistent snapshot (DESIGN §5 C06)."""
from sa import pat as P
from sa.cfg import cfg
from sa.expr import ex, show, walk, cond_exprs, const_val
from sa.util import table, fmt_conds, describe_table, local_by_name, glob_any, gate
from sa.util import is_panic_call
from rules.walks import *
from rules import c02

EXPLANATION = (
    "Decides structurally: R1 the page token and the response name the same tip — Page.tip_block_hash and "
    "GetUtxosResponse.tip_block_hash read the walk's loop-carried tip label (not chain.tip() nor the request's); a page "
    "request re-walks anchor..token-tip via get_chain_with_tip(token tip); R2 explicit errors on any page bytes — "
    "Page::from_bytes failure -> MalformedPage, unknown tip -> UnknownTipBlockHash; the parser's length check "
    "(EXPECTED_PAGE_LENGTH = 72 = 32 + 4 + OutPoint::size()) precedes every split, split offsets 36 then 32, the writer "
    "emits the same three components in the same order; R3 page size — MAX_UTXOS_PER_RESPONSE = 1000 is the limit at "
    "all call sites, take(limit + 1), split_off(min(len, limit)); R4 the page walk is total — the page call site passes "
    "min_confirmations = 0 and under that constant no cut literal stays feasible (same analysis as C02.R4); R5 resume "
    "symmetry — the stable source starts at AddressUtxoRange::new(address, offset), the unstable source filters utxo >= "
    "offset, the offset is built from the token's (height, outpoint); R6 next_page is Some iff a (limit+1)-th element "
    "exists, built from that element. "
    "Does NOT decide: all interleavings of page requests with ingestion, stabilisation and upgrades (schedule quantifier).")
RULES = {
    'R1': 'provenance of the tip hash in the Page aggregate and the response',
    'R2': 'GATE(from_bytes / get_chain_with_tip ⇒ walk) with explicit errors; constant agreement of the page layout; get_chain_with_tip atom',
    'R3': 'constants and expressions of the page size',
    'R4': 'SPEC(get_utxos_from_chain | min_confirmations = 0) for the page call site',
    'R5': 'resume offset flows to both sources; inclusive resume and spent filter on the unstable source (= C01.R8)',
    'R6': 'EXPR of next_page',
    'R7': 'sibling agreement: byte order of OutPoint in the stable index key vs Ord for Utxo',
    'R8': 'the stable source of a page is the delta-reverting accessor, unconditionally (= C08.R1b)',
    'R9': 'the page token of a follow-up request reaches the parser unchanged (request conversion table: Page(p) | page(p) -> Page(p))',
    'R10': 'outputs a named, still unstable tip needs stay cached when a competing fork is discarded between pages (= C20.R3 reference counts)',
}
ASSUMPTIONS = ['depth counts fit i32']
T = 'ic_btc_canister::types::'


def run(ctx):
    prog = ctx.prog
    f = ctx.fn('R1', GU + 'get_utxos_from_chain')
    if f:
        e = ex(prog, f)
        g = cfg(f)
        from sa.util import is_var
        lh, lht = tip_locals(prog, f)
        TIP = is_var(lh) if lh is not None else (lambda x: False)
        TIPH = is_var(lht) if lht is not None else (lambda x: False)
        resp = [e.rvalue(st['rv']) for b in f.blocks for st in b['stmts'] if (st.get('rv') or {}).get('agg') == 'adt' and st['rv']['adt'].endswith('GetUtxosResponse')]
        pages = [(k, ex(prog, k).rvalue(st['rv'])) for k in [f] + prog.descendants(f) for b in k.blocks for st in b['stmts'] if (st.get('rv') or {}).get('agg') == 'adt' and st['rv']['adt'] == T + 'Page']
        okr = len(resp) == 1 and P.call('ic_btc_types::BlockHash::to_vec', TIP)(dict(resp[0][4]).get('tip_block_hash')) and TIPH(dict(resp[0][4]).get('tip_height'))
        okp = False
        cap_ok = False
        if len(pages) == 1:
            k, pg = pages[0]
            ctx.touch(k)
            okp = P.either(P.captured(ex(prog, k), TIP), TIP)(dict(pg[4]).get('tip_block_hash'))
            # the closure captures the same local the response reads
            if k.id != f.id:
                for b in f.blocks:
                    for st in b['stmts']:
                        rv = st.get('rv') or {}
                        if rv.get('agg') == 'closure' and rv['closure'] == k.id:
                            caps = [e.operand(o) for o in rv['ops']]
                            cap_ok = any(TIP(c) for c in caps)
            else:
                cap_ok = True
        ctx.check(okr and okp and cap_ok, 'R1', 'token-names-response-tip', f, 'the page token and the response both carry the walk\'s tip label (same local)', 'response tip ok=%s page tip ok=%s captured=%s' % (okr, okp, cap_ok))
        # R6
        np_ = dict(resp[0][4]).get('next_page') if resp else None
        okn = np_ is not None and P.has(P.call('core::option::Option::map', P.call('core::slice::first', P.has(P.call('alloc::vec::Vec::split_off'))), P.anything))(np_)
        so = [c for c in f.calls() if not c.cleanup and c.matches('alloc::vec::Vec::split_off')]
        oksplit = len(so) == 1 and P.call('min', P.call('alloc::vec::Vec::len', P.anything), P.param('utxo_limit'))(e.operand(so[0].args[1]))
        tk = [c for c in f.calls() if not c.cleanup and c.matches('core::iter::traits::iterator::Iterator::take')]
        oktake = len(tk) == 1 and (P.binop('Add', P.param('utxo_limit'), P.const(1))(e.operand(tk[0].args[1])) or
                                    P.has(P.call('core::num::overflowing_add', P.param('utxo_limit'), P.const(1)))(e.operand(tk[0].args[1])))
        ctx.check(okn and oksplit and oktake, 'R6', 'next-page-iff-more', f, 'limit + 1 elements are taken, the response keeps min(len, limit), next_page = first of the rest', 'next_page=%s split=%s take=%s' % (okn, oksplit, oktake))
        if pages:
            pg = pages[0][1]
            d = dict(pg[4])
            NX = P.either(P.param(), P.var())
            okpg = P.field('height', NX)(d.get('height')) and P.has(P.field('outpoint', NX))(d.get('outpoint'))
            ctx.check(okpg, 'R6', 'token-offset-is-next-element', pages[0][0], 'the token\'s (height, outpoint) are those of the first omitted element', 'page token offset: %s' % show(pg)[:200])
        # R5 resume
        it = [c for c in f.calls() if not c.cleanup and c.matches('ic_btc_canister::address_utxoset::AddressUtxoSet::into_iter')]
        ctx.check(len(it) == 1 and P.param('offset')(e.operand(it[0].args[1])), 'R5', 'offset-to-iterator', it[0] if it else f, 'the resume offset is passed to AddressUtxoSet::into_iter', 'offset is not passed to into_iter')
    gi = ctx.fn('R2', GU + 'get_utxos_internal')
    if gi:
        e = ex(prog, gi)
        g = cfg(gi)
        fb = [c for c in gi.calls_to(T + 'Page::from_bytes') if not c.cleanup]
        gc = [c for c in gi.calls_to(UB + 'get_chain_with_tip') if not c.cleanup]
        wk = [c for c in gi.calls_to(GU + 'get_utxos_from_chain') if not c.cleanup]
        page_walk = [c for c in wk if any(k[0] == 'is' and k[2] == ('Some',) and P.param('page')(k[1]) for k in cond_exprs(prog, gi, c.bb))]
        if not (fb and gc and page_walk):
            ctx.unknown('R2', 'page-path', gi, 'page path anchors missing (from_bytes=%d chain=%d walk=%d)' % (len(fb), len(gc), len(page_walk)))
        else:
            ok1, w1 = gate(prog, gi, fb[0].bb, page_walk[0].bb)
            ok2, w2 = gate(prog, gi, gc[0].bb, page_walk[0].bb)
            ctx.check(ok1, 'R2', 'gate:from_bytes=>walk', page_walk[0], 'a page that does not parse never reaches the walk (%s)' % w1[:100], 'walk is not gated by Page::from_bytes: %s' % w1)
            ctx.check(ok2, 'R2', 'gate:known-tip=>walk', page_walk[0], 'an unknown token tip never reaches the walk (%s)' % w2[:100], 'walk is not gated by get_chain_with_tip: %s' % w2)
            # error kinds
            okm = False
            for c in gi.calls_to('core::result::Result::map_err'):
                for cid in c.closure_args():
                    k = prog.fns.get(cid)
                    if k and P.agg(variant='MalformedPage')(ex(prog, k).local(0)):
                        okm = True
            oku = any(P.has(P.agg(variant='UnknownTipBlockHash'))(e.operand(c.args[1])) for c in gi.calls_to('core::option::Option::ok_or') if not c.cleanup)
            ctx.check(okm and oku, 'R2', 'error-kinds', gi, 'parse failure -> MalformedPage; unknown tip -> UnknownTipBlockHash', 'error mapping: malformed=%s unknown-tip=%s' % (okm, oku))
            # the chain walked is the one ending at the token's tip; the offset is the token's (height, outpoint)
            a = [e.operand(x) for x in page_walk[0].args]
            tok = P.has(P.call(T + 'Page::from_bytes'))
            okc = P.has(P.call(UB + 'get_chain_with_tip', P.anything, P.field('tip_block_hash', tok)))(a[3]) or P.has(P.call(UB + 'get_chain_with_tip'))(a[3])
            kt = e.operand(gc[0].args[1])
            okk = P.has(P.field('tip_block_hash', tok))(kt) or P.named('tip_block_hash')(kt)
            off = a[4]
            oko = P.agg(variant='Some', _0=P.agg('Utxo', height=P.either(P.field('height', tok), P.named('height')), outpoint=P.either(P.field('outpoint', tok), P.named('outpoint')), value=P.const(0)))(off)
            ctx.check(okc and okk and oko, 'R5', 'page-walk-inputs', page_walk[0], 'a page request walks get_chain_with_tip(token tip) and resumes at the token\'s (height, outpoint)', 'page walk inputs: chain=%s key=%s offset=%s' % (okc, okk, oko))
    # R2 layout
    fbf = ctx.fn('R2', T + 'Page::from_bytes')
    if fbf:
        e = ex(prog, fbf)
        g = cfg(fbf)
        rows = table(prog, fbf)
        LEN = P.call('alloc::vec::Vec::len', P.param('bytes'))
        err = [r for r in rows if P.agg(variant='Err')(r[1]) and P.exactly(r[2], [P.binop('Ne', LEN, P.item('EXPECTED_PAGE_LENGTH'))])]
        so = [c for c in fbf.calls() if not c.cleanup and c.matches('alloc::vec::Vec::split_off')]
        offs = [const_val(e.operand(c.args[1])) for c in so]
        guard = all(any(P.binop('Eq', LEN, P.item('EXPECTED_PAGE_LENGTH'))(k) for k in cond_exprs(prog, fbf, c.bb)) for c in so)
        epl = prog.consts.get(T + 'EXPECTED_PAGE_LENGTH', {}).get('int')
        ctx.check(len(err) == 1 and offs == [36, 32] and guard and epl == 72, 'R2', 'parser-layout', fbf,
                  'length != 72 is rejected before any split; splits at 36 (outpoint) then 32 (height); 72 = 32 + 4 + 36', 'parser: err rows=%d offsets=%s guarded=%s EXPECTED_PAGE_LENGTH=%s' % (len(err), offs, guard, epl))
        op_size = prog.fn('ic_btc_types::OutPoint::size', required=False)
        okos = False
        if op_size:
            r = ex(prog, op_size).local(0)
            from sa.absint import Env
            okos = Env(prog, {}).const(r) == 36
        ctx.check(okos, 'R2', 'outpoint-size', op_size or '', 'OutPoint::size() = 36, so the remaining 36 bytes are exactly one outpoint', 'OutPoint::size() is not 36')
        # the height bytes are parsed without a panic path: try_into mapped to Err
        okh = any(P.is_(P.has(P.call('<T as core::convert::TryInto>::try_into')), 'Break')(c) for r in rows for c in r[2])
        ctx.check(okh, 'R2', 'height-parse-graceful', fbf, 'a bad height slice yields Err, not a panic', 'height parsing can panic')
    tb = ctx.fn('R2', T + 'Page::to_bytes')
    if tb:
        e = ex(prog, tb)
        arr = [e.rvalue(st['rv']) for b in tb.blocks for st in b['stmts'] if (st.get('rv') or {}).get('agg') == 'array']
        oko = any(len(a[4]) == 3 and P.has(P.field('tip_block_hash'))(a[4][0][1]) and P.has(P.field('height'))(a[4][1][1]) and P.has(P.field('outpoint'))(a[4][2][1]) for a in arr)
        ctx.check(oko, 'R2', 'writer-layout', tb, 'Page::to_bytes writes tip hash, height, outpoint in the order the parser reads them', 'writer layout not recognised')
    # R3
    c = prog.consts.get(GU + 'MAX_UTXOS_PER_RESPONSE', {})
    ctx.check(c.get('int') == 1000, 'R3', 'MAX_UTXOS_PER_RESPONSE', '', 'MAX_UTXOS_PER_RESPONSE = 1000', 'MAX_UTXOS_PER_RESPONSE = %s' % c.get('s'))
    gp = ctx.fn('R3', GU + 'get_utxos_private')
    if gp:
        sites = [(k, c) for k in [gp] + prog.descendants(gp) for c in k.calls_to(GU + 'get_utxos_internal') if not c.cleanup]
        ok = len(sites) == 3 and all(P.item('MAX_UTXOS_PER_RESPONSE', 1000)(ex(prog, k).operand(c.args[4])) for k, c in sites)
        ctx.check(ok, 'R3', 'limit-at-call-sites', gp, 'all 3 call sites pass MAX_UTXOS_PER_RESPONSE as the page size', 'a call site passes another limit')
    if gi:
        e = ex(prog, gi)
        ok = all(P.param('utxo_limit')(e.operand(c.args[5])) for c in gi.calls_to(GU + 'get_utxos_from_chain') if not c.cleanup)
        ctx.check(ok, 'R3', 'limit-flows', gi, 'the limit is passed through unchanged', 'limit transformed on the way')
    # R4
    c02.r4(ctx, 'R4', only_page=True)
    r7_order_agreement(ctx)
    from rules import atoms
    atoms.chain_with_tip(ctx, 'R2')
    # the unstable source resumes at the offset inclusively and filters spent outputs (shared with
    # C01.R8); the stable source is read through the accessor that masks a partially ingested block
    # whatever the offset is (shared with C08.R1b) — a page may be requested between two slices
    from sa.engine import SubCtx
    from rules import c01, c08
    c01.r8(SubCtx(ctx, {'R8': 'R5'}))
    # the position of an element must not change when its block stabilises between two pages: an
    # unstable UTXO is sorted under the height of the applied block, which is the height the stable
    # index will hold it under (shared with C01.R2)
    c01.r2(SubCtx(ctx, {'R2': 'R5'}))
    c08.r1b(SubCtx(ctx, {'R1b': 'R8'}))


def r7_order_agreement(ctx, rule='R7'):
    """Sibling agreement of the two sorted sources a page resumes: the stable address index is ordered
    by the key bytes (address, height, OutPoint bytes), the unstable side by `Ord for Utxo`. A UTXO
    moves from the second to the first when its block stabilises, so both must order outpoints the
    same way, or a page token taken before means something else after."""
    prog = ctx.prog
    from rules.c01 import utxo_order
    enc = {}
    for nm in ('to_bytes', 'into_bytes'):
        f = prog.fn('<ic_btc_types::OutPoint as ic_stable_structures::storable::Storable>::' + nm, required=False)
        if f is None:
            continue
        ctx.touch(f)
        e = ex(prog, f)
        g = cfg(f)
        tx = [c for c in f.calls() if not c.cleanup and c.matches('ic_btc_types::Txid::as_bytes')]
        vo = [c for c in f.calls() if not c.cleanup and c.matches('core::num::to_le_bytes', 'core::num::to_be_bytes')
              and P.field('vout', P.param('self'))(e.operand(c.args[0]))]
        if len(tx) == 1 and len(vo) == 1 and g.dominates(tx[0].bb, vo[0].bb):
            enc[nm] = 'le' if vo[0].matches('core::num::to_le_bytes') else 'be'
    if not enc or len(set(enc.values())) != 1:
        ctx.unknown(rule, 'order-agreement:outpoint', '', 'byte encoder of OutPoint not recognised (txid bytes then vout.to_{le,be}_bytes): %s' % enc)
        return
    endian = set(enc.values()).pop()
    uo = utxo_order(prog)
    if uo is None or not uo['lexicographic']:
        ctx.unknown(rule, 'order-agreement:outpoint', '', 'Ord for Utxo is not a recognised lexicographic chain')
        return
    ctx.touch(uo['fn'])
    comps = dict(uo['components'])
    how = comps.get('vout') or ('num' if comps.get('outpoint') == 'derived' else '?')
    order = [c[0] for c in uo['components']]
    txid_first = order[:1] == ['outpoint'] or order[:2] == ['txid', 'vout']
    agree = txid_first and ((endian == 'le' and how == 'le') or (endian == 'be' and how in ('be', 'num')))
    ctx.check(agree, rule, 'order-agreement:outpoint', uo['fn'],
              'the stable index key (vout as %s bytes) and Ord for Utxo (vout compared as %s) order outpoints identically' % (endian, how),
              'the stable index orders the outputs of one transaction by the %s-endian bytes of the vout, Ord for Utxo (the unstable side and the merge) by %s: '
              'for vouts >= 256 the orders differ, so a page token issued while the block was unstable selects a different suffix once it is stable '
              '(1200 outputs in one tx, page boundary at vout 1000: the follow-up page repeats 69 outputs and omits 176)' % (endian, {'num': 'numeric value', 'derived': 'numeric value'}.get(how, how)))


# plumbing between the interface and the analysed functions (rules/plumbing.py)
_run_before_plumbing = run


def run(ctx):
    _run_before_plumbing(ctx)
    from rules import plumbing
    plumbing.request_conversions(ctx, 'R9')
    # R10 (added after seeded change C06-9): a follow-up page replays the unstable blocks up to the tip its token
    # names; every output those blocks reference must still be cached when a losing fork that shared the
    # transaction is discarded between two pages (= C20.R3, the reference counts of the outpoint cache)
    from sa.engine import SubCtx
    from rules import c20
    c20.run(SubCtx(ctx, {'R3': 'R10'}))
