"""Shared analysis of the two chain walks (get_utxos_from_chain, get_balance_private) used by C02/C04/C05/C06."""
from sa import pat as P
from sa.cfg import cfg
from sa.expr import ex, show, walk, cond_exprs, path_conditions, const_val
from sa.absint import Env, TRUE, FALSE, UNKNOWN

GU = 'ic_btc_canister::api::get_utxos::'
GB = 'ic_btc_canister::api::get_balance::'
UB = 'ic_btc_canister::unstable_blocks::'

NEXT = P.call('<core::iter::adapters::enumerate::Enumerate as core::iter::traits::iterator::Iterator>::next', P.anything)
IDX = P.field('0', P.field('0', P.downcast('Some', NEXT)))          # i of (i, block)
BLK = P.has(P.field('1', P.field('0', P.downcast('Some', NEXT))))   # block of (i, block)
MINC = P.either(P.named('min_confirmations'), P.cast(P.named('min_confirmations')))
STAB = P.call(GU + 'get_stability_count',
              P.index(P.call(UB + 'GenericUnstableBlocks::block_hashes_with_depths_by_heights', P.anything), IDX),
              P.call('<ic_btc_canister::blocktree::CachedBlock as ic_btc_canister::blocktree::ChainBlock>::block_hash', BLK))


def structural(c):
    """literals of the walk's path condition that are not part of the per-block cut"""
    if c[0] == 'is' and (P.call('*::next')(c[1]) or P.has(P.call('*::branch'))(c[1]) or P.call('*::branch')(c[1])):
        return True
    if c[0] == 'bin' and c[1] in ('Le', 'Lt') and any(P.call('ic_btc_canister::blocktree::BlockChain::len')(x) for x in walk(c)):
        return True   # the MinConfirmationsTooLarge bound check
    return False


def find_walk(prog, fn, apply_pats):
    """(fn, apply CallSite, loop header) of the chain walk: the loop containing the first call
    matching apply_pats (searched in fn and its closures)."""
    for k in [fn] + prog.descendants(fn):
        g = cfg(k)
        for c in k.calls():
            if c.cleanup or not c.matches(*apply_pats):
                continue
            h = g.in_loop(c.bb)
            # the outermost loop around it is the chain walk
            outer = h
            while outer is not None:
                nxt = None
                for a, hh in g.back_edges():
                    if hh != outer and outer in g.loop_blocks(hh):
                        nxt = hh
                if nxt is None:
                    break
                outer = nxt
            if outer is not None:
                return k, c, outer
    return None, None, None


def first_in_outer_loop(prog, k, apply, outer):
    """a block of the per-block admission region: the earliest block dominated by the loop's
    `next() is Some` arm that dominates the apply call"""
    return apply.bb


def cut_literals(prog, k, site_bb):
    """DNF of the path condition of site_bb restricted to non-structural literals."""
    d = path_conditions(prog, k, site_bb)
    if d is None:
        return None
    out = []
    for conj in d:
        out.append([c for c in conj if not structural(c)])
    # dedupe
    uniq = []
    for c in out:
        if c not in uniq:
            uniq.append(c)
    return uniq


def total_under(prog, k, site_bb, assume, preds=()):
    """Is the per-block admission forced true when the named variable has the given constant?
    Returns (bool, explanation)."""
    d = cut_literals(prog, k, site_bb)
    if d is None:
        return False, 'path condition too large'
    env = Env(prog, assume, preds)
    why = []
    for conj in d:
        ts = [env.truth(c) for c in conj]
        if all(t == TRUE for t in ts):
            return True, 'disjunct %s is forced true' % ([show(c)[:120] for c in conj] or ['<no cut literal>'])
        bad = [show(c)[:200] for c, t in zip(conj, ts) if t != TRUE]
        why.append(bad)
    return False, 'the cut literal(s) %s stay feasible: the walk can stop before the tip' % why[:2]


def tip_locals(prog, f):
    """(local of the walk's tip hash label, local of its tip height label) in get_utxos_from_chain,
    identified by their initial values (anchor hash / next_height), not by name."""
    from sa.util import find_locals
    NH = P.call('ic_btc_canister::utxo_set::UtxoSet::next_height', P.field('utxos', P.param('state')))
    HASH0 = P.call('<ic_btc_canister::blocktree::CachedBlock as ic_btc_canister::blocktree::ChainBlock>::block_hash', P.call('ic_btc_canister::blocktree::BlockChain::first', P.param('chain')))
    out = []
    for init in (HASH0, NH):
        ls = find_locals(prog, f, lambda x, l, init=init: init(x), lambda x, l, init=init: not init(x))
        out.append(ls[0] if len(ls) == 1 else None)
    return tuple(out)


def ingestion_wrapper_direct(prog, w):
    """heartbeat::ingest_stable_blocks_into_utxoset hands the whole state to
    state::ingest_stable_blocks_into_utxoset under no condition and returns its result: either the
    function item itself is passed to with_state_mut, or a closure whose only return row is that call."""
    from sa.util import table, the_closure
    TARGET = 'ic_btc_canister::state::ingest_stable_blocks_into_utxoset'
    cs = [c for c in w.calls_to('ic_btc_canister::with_state_mut') if not c.cleanup]
    if len(cs) != 1 or cond_exprs(prog, w, cs[0].bb):
        return False, 'with_state_mut is not called exactly once unconditionally'
    if TARGET in cs[0].fn_args():
        return True, 'function item passed to with_state_mut'
    cl = the_closure(prog, w)
    if cl is None:
        return False, 'no single closure'
    rows = table(prog, cl)
    good = len(rows) == 1 and not rows[0][2] and P.call(TARGET, P.anything)(rows[0][1])
    return good, 'closure rows: %s' % [(show(r[1]), [show(c) if c[0] not in ('is', 'switch') else c for c in r[2]]) for r in rows]


def walk_exits(ctx, rule, prog, k, outer, label):
    """every way out of the chain walk is either exhaustion of the chain, the confirmation cut, or an error
    return: a `break` under any other test (an instruction budget, a height, a flag) makes the answer name a
    block below the tip the other endpoints serve (seeded change C02-9 put one *after* the apply call, where
    the per-block admission condition does not see it)"""
    from sa.expr import switch_info
    g = cfg(k)
    body = g.loop_blocks(outer)
    hc = cond_exprs(prog, k, outer, hidden=False)
    cutlike = lambda c: any(isinstance(x, tuple) and ((x[0] == 'call' and x[1].endswith('get_stability_count')) or (x[0] in ('param', 'upvar', 'var') and 'min_confirmations' in str(x))) for x in walk(c))
    bad = []
    n = 0
    for a in sorted(body):
        if k.blocks[a].get('cleanup'):
            continue
        for b in g.succ[a]:
            if b in body or k.blocks[b].get('cleanup') or k.blocks[b]['term']['k'] in ('unreachable',):
                continue
            n += 1
            lits = [c for c in cond_exprs(prog, k, b, hidden=False) if c not in hc]
            extra = [c for c in lits if not structural(c) and not cutlike(c)]
            if extra:
                bad.append((a, [show(c)[:100] for c in extra]))
    ctx.check(n >= 1 and not bad, rule, 'walk-exits:' + label, k.where(bad[0][0]) if bad else k,
              'the chain walk is left only when the chain is exhausted, at the confirmation cut, or by an error return (%d exit edge(s))' % n,
              'the chain walk can also stop under %s: the answer then names a block below the tip' % (bad[0][1] if bad else 'no exit found'))
