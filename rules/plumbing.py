"""Plumbing between the public interface and the functions the property rules analyse: request
conversions, configuration flow (InitConfig -> Config -> state, SetConfigRequest -> state), the
watchdog's round order, the block enumeration behind the release of cached data, the key/value codecs
of the stable stores. None of it decides anything by itself, but a rule about `verify_synced` or about
the confirmation cut says nothing if the flag or the `min_confirmations` it reads never arrives. Each
function takes (ctx, rule) so that a property files the obligations under its own rule label.
(Added after listing the workspace functions no rule of any property looked at: tools/untouched.py.)"""
from sa import pat as P
from sa.cfg import cfg
from sa.expr import ex, show, walk, cond_exprs, const_val
from sa.facts import norm
from sa.util import table, describe_table, return_blocks, fmt_conds

CONFIG_ADTS = ('ic_btc_interface::Config', 'ic_btc_interface::InitConfig', 'ic_btc_interface::SetConfigRequest')


def _cfg_fields(e):
    """names of the fields of Config / InitConfig / SetConfigRequest an expression reads"""
    return {x[2] for x in walk(e) if isinstance(x, tuple) and x[0] == 'field' and len(x) > 3 and norm(x[3] or '') in CONFIG_ADTS}


def _dst_field(dst):
    """last named field of an assignment destination, or None"""
    for p in reversed(dst.get('p') or []):
        if isinstance(p, dict) and 'f' in p:
            return p.get('n') or p['f']
    return None


def _field_writes(prog, fn):
    """[(fn, bb, field name, owner adt, value expr)] for every assignment to a named field in fn and its closures"""
    out = []
    for k in [fn] + prog.descendants(fn):
        e = ex(prog, k)
        for bi, b in enumerate(k.blocks):
            if b.get('cleanup'):
                continue
            for st in b['stmts']:
                if 'rv' not in st or not st['dst'].get('p'):
                    continue
                d = e.place(st['dst'])
                if isinstance(d, tuple) and d[0] == 'field':
                    out.append((k, bi, d[2], norm(d[3] or ''), e.rvalue(st['rv'])))
    return out


def config_from_init(ctx, rule):
    """Config::from(InitConfig): every field of the result is the argument's field of the same name when
    present and the default otherwise; fees default per network unless given explicitly"""
    prog = ctx.prog
    f = ctx.fn(rule, '<ic_btc_interface::Config as core::convert::From>::from')
    adt = prog.adts.get('ic_btc_interface::InitConfig')
    if not f or not adt:
        if not adt:
            ctx.unknown(rule, 'anchor:InitConfig', '', 'type ic_btc_interface::InitConfig not found')
        return
    names = [x['name'] for x in adt['variants'][0]['fields']]
    ws = [w for w in _field_writes(prog, f) if w[3] == 'ic_btc_interface::Config']
    n = 0
    for name in names:
        mine = [w for w in ws if w[2] == name]
        SRC = P.field(name, P.param())
        direct = [w for w in mine if P.downcast('Some', SRC)(w[4].__class__ and _strip_field0(w[4]))]
        good = False
        for k, bi, _, _, v in direct:
            cs = cond_exprs(prog, k, bi)
            good = good or P.exactly(cs, [P.is_(SRC, 'Some')])
        # the same written as `config.f = init_config.f.unwrap_or(config.f)`
        DEF = P.field(name, P.call('<ic_btc_interface::Config as core::default::Default>::default'))
        alt = [w for w in mine if P.call('*::unwrap_or', SRC, DEF)(w[4]) and not cond_exprs(prog, w[0], w[1])]
        if alt and not direct:
            direct, good = alt, True
        others = [w for w in mine if w not in direct]
        if name == 'fees':
            # post-processing: without explicit fees, mainnet / testnet get their own tables
            rows = {}
            flat = []
            for k, bi, _, _, v in others:
                if isinstance(v, tuple) and v[0] == 'var' and len(v) > 2 and isinstance(v[2], int):
                    flat += [(k, bb, v2, cs + [c for c in cond_exprs(prog, k, bi) if c not in cs]) for bb, v2, cs in table(prog, k, v[2])]
                else:
                    flat.append((k, bi, v, cond_exprs(prog, k, bi)))
            for k, bi, v, cs in flat:
                net = [c[2] for c in cs if c[0] == 'is' and P.field('network')(c[1])]
                explicit = [c for c in cs if P.has(P.call('*::is_some', P.field('fees', P.param())))(c)]
                if isinstance(v, tuple) and v[0] == 'call' and len(net) == 1 and len(explicit) == 1 and len(cs) == 2:
                    rows[net[0]] = v[1].rsplit('::', 1)[-1]
                elif isinstance(v, tuple) and v[0] == 'field' and v[2] == 'fees' and len(net) == 1 and len(explicit) == 1 and len(cs) == 2:
                    rows[net[0]] = 'unchanged'
                else:
                    rows[('?', show(v)[:60])] = fmt_conds(cs)[:120]
            okf = rows == {('Mainnet',): 'mainnet', ('Testnet',): 'testnet', ('Regtest',): 'unchanged'} or rows == {('Mainnet',): 'mainnet', ('Testnet',): 'testnet'}
            ctx.check(okf, rule, 'config-from-init:fees-per-network', f, 'without explicit fees the configuration gets Fees::mainnet() on Mainnet, Fees::testnet() on Testnet and keeps the default on Regtest',
                      'fee post-processing of Config::from(InitConfig) is %s' % rows)
            others = []
        n += 1
        ctx.check(good and not others, rule, 'config-from-init:' + name, f, 'Config.%s = InitConfig.%s when given, the default otherwise' % (name, name),
                  'Config.%s is not "InitConfig.%s when given, else the default": direct=%s other writes=%s' % (name, name, [fmt_conds(cond_exprs(prog, w[0], w[1]))[:80] for w in direct], [show(w[4])[:80] for w in others]))
    ctx.floor(rule, 'fields of InitConfig carried into Config', n, 10)
    rows = table(prog, f)
    ok = len(rows) == 1 and P.call('<ic_btc_interface::Config as core::default::Default>::default')(rows[0][1])
    ctx.check(ok, rule, 'config-from-init:starts-from-default', f, 'Config::from(InitConfig) returns the default configuration updated field by field', 'return value: %s' % describe_table(rows))


def _strip_field0(e):
    """`(x as Some).0` -> `x as Some`"""
    if isinstance(e, tuple) and e[0] == 'field' and e[2] in ('0', 0) and isinstance(e[1], tuple) and e[1][0] == 'downcast':
        return e[1]
    return e


# state field (last path component) <- Config field, as written by `init`
INIT_FIELDS = ('blocks_source', 'api_access', 'syncing', 'disable_api_if_not_fully_synced', 'watchdog_canister', 'burn_cycles',
               'lazily_evaluate_fee_percentiles', 'fees')


def init_applies_config(ctx, rule, fields=INIT_FIELDS):
    """init: the state is built from Config::from(the argument); every setting is copied from the field
    of the same name, unconditionally; network and stability threshold go into State::new"""
    prog = ctx.prog
    f = ctx.fn(rule, 'ic_btc_canister::init')
    if not f:
        return
    e = ex(prog, f)
    CONF = P.call('<ic_btc_interface::Config as core::convert::From>::from', P.param())
    ws = _field_writes(prog, f)
    for name in fields:
        mine = [w for w in ws if w[2] == name and w[3].startswith('ic_btc_canister::')]
        good = len(mine) >= 1
        for k, bi, _, _, v in mine:
            src = _cfg_fields(v)
            ek = ex(prog, k)
            base_ok = any(isinstance(x, tuple) and x[0] == 'field' and x[2] == name and (CONF(x[1]) or P.captured(ek, CONF)(x[1])) for x in walk(v))
            good = good and src == {name} and base_ok and not cond_exprs(prog, k, bi) and not cond_exprs(prog, f, _closure_site(prog, f, k))
        ctx.check(good, rule, 'init-applies:' + name, f, 'init copies Config.%s into the state, unconditionally' % name,
                  'init does not copy Config.%s into the state field of that name unconditionally: %s' % (name, [(show(w[4])[:60], fmt_conds(cond_exprs(prog, w[0], w[1]))[:60]) for w in mine]))
    new = [c for c in f.calls() if not c.cleanup and c.matches('ic_btc_canister::state::GenericState::new')]
    if len(new) == 1:
        a = [e.operand(x) for x in new[0].args]
        FLD = lambda n: P.field(n, CONF)
        ok = (len(a) == 4 and P.has(FLD('stability_threshold'))(a[1]) and _cfg_fields(a[1]) == {'stability_threshold'} and not any(isinstance(x, tuple) and x[0] == 'cast' for x in walk(a[1]))
              and FLD('network')(a[2]) and P.call('ic_btc_canister::genesis_block', FLD('network'))(a[3]) and P.call('*::BlocksCacheInStableMem::new', FLD('network'), P.anything)(a[0]))
        st = [c for c in f.calls() if not c.cleanup and c.matches('ic_btc_canister::set_state')]
        ok = ok and len(st) == 1 and not cond_exprs(prog, f, st[0].bb) and all(cfg(f).dominates(st[0].bb, _closure_site(prog, f, w[0])) for w in ws if w[0] is not f)
        ctx.check(ok, rule, 'init-applies:network+stability_threshold', f,
                  'State::new(cache(network), stability_threshold (checked conversion), network, genesis(network)) from the same Config, published before the settings are copied',
                  'State::new arguments in init: %s' % [show(x)[:70] for x in a])
    else:
        ctx.unknown(rule, 'init-applies:network+stability_threshold', f, 'State::new call not found in init (%d)' % len(new))


def _closure_site(prog, parent, k):
    """block of `parent` in which closure k (or its ancestor closure) is created / passed; entry block if k is parent"""
    if k is parent:
        return 0
    while k.parent and prog.fns.get(k.parent) is not parent and prog.fns.get(k.parent) is not None:
        k = prog.fns[k.parent]
    for bi, b in enumerate(parent.blocks):
        for st in b['stmts']:
            rv = st.get('rv') or {}
            if rv.get('agg') in ('closure', 'coroutine', 'coroutine_closure') and rv.get('closure') == k.id:
                return bi
    return 0


def set_config_same_name(ctx, rule):
    """set_config: every setting is overwritten with the request's field of the same name"""
    prog = ctx.prog
    f = ctx.fn(rule, 'ic_btc_canister::api::set_config::set_config_no_verification')
    fw = ctx.fn(rule, 'ic_btc_canister::api::set_config::set_api_access')
    if not f or not fw:
        return
    # the watchdog's entry writes the access flag and nothing else
    ww = [(k, bi, name, v) for k, bi, name, owner, v in _field_writes(prog, fw) if owner.startswith('ic_btc_canister::')]
    okw = len(ww) == 1 and ww[0][2] == 'api_access' and (_cfg_fields(ww[0][3]) | _cfg_fields_via_captures(prog, ww[0][0], ww[0][3])) == {'api_access'}
    ctx.check(okw, rule, 'set_api_access-only-the-flag', fw, 'set_api_access (the watchdog\'s entry) sets state.api_access from request.api_access and nothing else',
              'set_api_access writes %s' % [(w[2], show(w[3])[:50]) for w in ww])
    n = 0
    for k, bi, name, owner, v in _field_writes(prog, f):
        if not owner.startswith('ic_btc_canister::'):
            continue
        src = _cfg_fields(v) | _cfg_fields_via_captures(prog, k, v)
        n += 1
        ctx.check(src == {name}, rule, 'set_config-same-field:' + name, k.where(bi), 'state.%s is set from request.%s' % (name, name),
                  'state.%s is set from request field(s) %s' % (name, sorted(src)))
    for k in [f] + prog.descendants(f):
        e = ex(prog, k)
        for c in k.calls():
            if not c.cleanup and (c.short or '').endswith('::set_stability_threshold'):
                v = e.operand(c.args[1])
                src = _cfg_fields(v) | _cfg_fields_via_captures(prog, k, v)
                n += 1
                ctx.check(src == {'stability_threshold'}, rule, 'set_config-same-field:stability_threshold', k.where(c.bb),
                          'the stability threshold is set from request.stability_threshold', 'the stability threshold is set from request field(s) %s' % sorted(src))
    ctx.floor(rule, 'settings written by set_config', n, 8)


def _cfg_fields_via_captures(prog, k, v):
    out = set()
    ek = ex(prog, k)
    for x in walk(v):
        if isinstance(x, tuple) and x[0] == 'upvar' and len(x) > 2:
            src = ek.upvar_source(x[2])
            if src is not None:
                out |= _cfg_fields(src)
    return out


def request_conversions(ctx, rule):
    """the public requests reach the implementation unchanged: address, min_confirmations and the filter
    (both spellings of each variant) are carried over"""
    prog = ctx.prog
    T = 'ic_btc_canister::types::'
    f = ctx.fn(rule, '<' + T + 'GetBalanceRequest as core::convert::From>::from')
    if f:
        r = ex(prog, f).local(0)
        ok = P.agg(adt_suffix='GetBalanceRequest', address=P.field('address', P.param()), min_confirmations=P.field('min_confirmations', P.param()))(r)
        ctx.check(ok, rule, 'request-conversion:get_balance', f, 'internal balance request = {address, min_confirmations} of the public one', 'conversion builds %s' % show(r)[:200])
    f = ctx.fn(rule, '<' + T + 'GetUtxosRequest as core::convert::From>::from')
    if f:
        r = ex(prog, f).local(0)
        ok = P.agg(adt_suffix='GetUtxosRequest', address=P.field('address', P.param()), filter=P.call('*::map', P.field('filter', P.param()), P.anything))(r)
        rows = {}
        for k in prog.children(f):
            for bb, v, cs in table(prog, k):
                lab = tuple(sorted(l for c in cs if c[0] == 'is' for l in c[2]))
                payload_ok = False
                if isinstance(v, tuple) and v[0] == 'agg' and v[4]:
                    pl = v[4][0][1]
                    srcs = [pl]
                    if isinstance(pl, tuple) and pl[0] == 'var' and len(pl) > 2 and isinstance(pl[2], int):
                        srcs = [x for _, x, _ in table(prog, k, pl[2])]
                    payload_ok = bool(srcs) and all(isinstance(x, tuple) and x[0] == 'field' and isinstance(x[1], tuple) and x[1][0] == 'downcast' and P.param()(x[1][1]) for x in srcs) and \
                        {x[1][2] for x in srcs} == set(lab)
                rows[lab] = (v[3] if isinstance(v, tuple) and v[0] == 'agg' else show(v)[:40], payload_ok)
        want_ok = all(ok_ for _, ok_ in rows.values()) and \
            {l: v for ls, (v, _) in rows.items() for l in ls} == {'MinConfirmations': 'MinConfirmations', 'min_confirmations': 'MinConfirmations', 'Page': 'Page', 'page': 'Page'}
        ctx.check(ok and want_ok, rule, 'request-conversion:get_utxos', f,
                  'internal UTXO request = {address, filter}: MinConfirmations(c) | min_confirmations(c) -> MinConfirmations(c), Page(p) | page(p) -> Page(p)',
                  'conversion builds %s with filter table %s' % (show(r)[:120], rows))


def tick_order(ctx, rule):
    """watchdog round: the explorer and canister heights are fetched (and stored) before the decision is
    taken, in the same round"""
    prog = ctx.prog
    f = ctx.fn(rule, 'watchdog::tick')
    if not f:
        return
    bodies = prog.children(f)
    ok = False
    for k in bodies:
        g = cfg(k)
        fe = [c for c in k.calls() if not c.cleanup and c.matches('watchdog::fetch_block_height')]
        sy = [c for c in k.calls() if not c.cleanup and c.matches('watchdog::api_access::synchronise_api_access')]
        if len(fe) == 1 and len(sy) == 1:
            # the fetch future is awaited to completion before the decision: the only condition of the
            # decision call is the Ready arm of the fetch future's poll
            cs = cond_exprs(prog, k, sy[0].bb)
            POLL = P.call('watchdog::fetch_block_height::{closure#*}', P.anything, P.anything)
            ok = g.dominates(fe[0].bb, sy[0].bb) and P.exactly(cs, [P.is_(POLL, 'Ready')])
    ctx.check(ok, rule, 'tick-order', f, 'tick: fetch_block_height().await completes, then synchronise_api_access() runs, unconditionally',
              'the watchdog round does not fetch before it decides (or decides conditionally)')


def blocks_enumeration(ctx, rule):
    """BlockTree::blocks yields the root and, recursively, every child subtree's blocks (pop releases the
    cached data of exactly these)"""
    prog = ctx.prog
    f = ctx.fn(rule, 'ic_btc_canister::blocktree::BlockTree::blocks')
    if not f:
        return
    e = ex(prog, f)
    names = {(c.gshort or c.short or '?').rsplit('::', 1)[-1] for c in [c for k in [f] + prog.descendants(f) for c in k.calls()] if not c.cleanup}
    once = [c for c in f.calls() if not c.cleanup and c.matches('core::iter::once', 'core::iter::sources::once::once') and P.field('root', P.param('self'))(e.operand(c.args[0]))]
    fm = [c for c in f.calls() if not c.cleanup and (c.gshort or c.short or '').endswith('::flat_map') and P.call('core::slice::iter', P.field('children', P.param('self')))(e.operand(c.args[0]))]
    rec = [c for k in prog.descendants(f) for c in k.calls() if not c.cleanup and c.callee == f.id and P.param()(ex(prog, k).operand(c.args[0]))]
    bad = {'skip', 'take', 'filter', 'rev', 'step_by', 'take_while', 'skip_while', 'filter_map', 'skip_last', 'last', 'nth'} & names
    ctx.check(len(once) == 1 and len(fm) == 1 and len(rec) == 1 and not bad and 'chain' in names, rule, 'blocks-enumerates-whole-tree', f,
              'BlockTree::blocks = once(root) chained with the blocks of every child, recursively, no adaptor in between',
              'BlockTree::blocks does not enumerate root + all child subtrees (once=%d flat_map=%d recursion=%d adaptors=%s)' % (len(once), len(fm), len(rec), sorted(bad)))
