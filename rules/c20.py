"""C20 — Bookkeeping for unstable blocks is exact: nothing leaks, nothing dangles (DESIGN §5 C20)."""
from sa import pat as P
from sa.cfg import cfg
from sa.expr import ex, show, walk, cond_exprs, const_val
from sa.util import (gate, table, fmt_conds, describe_table, require_callers, require_writers, field_assignments,
                     return_blocks, glob_any, local_assignments)
from sa.dataflow import accesses, writers

EXPLANATION = (
    "Decides structurally: R1 acquire sites — block bodies enter the cache only through CachedBlock::new_cached, "
    "outpoint data only through insert_outpoints (called by push and UnstableBlocks::new); in push the outpoints are "
    "cached before the tree is extended, and the announced-header removal and the tip-depth refresh lie on every Ok "
    "path; R2 release sites — in pop the loop over the detached tree releasing outpoints dominates the removal of the "
    "bodies (which it needs), and remove_until_height(stable_height) and the tip-depth refresh lie on every Some path; "
    "remove_from_cache removes its own root and recurses over all children; R3 symmetric traversal — insert_outpoints "
    "and OutPointsCache::remove visit the same item classes (every input except null previous outputs; every output "
    "by (txid, index)), count up by exactly 1 / down by exactly 1, delete at count 0, and pair the two per-block maps; "
    "R4 who writes each bookkeeping field. "
    "Does NOT decide: exactness of reference counts after arbitrary fork/discard sequences (a history-level fact).")
RULES = {
    'R1': 'CALLERS of the acquire functions; DOM order and ALLEXITS in push',
    'R2': 'DOM order and ALLEXITS in pop; recursion of remove_from_cache',
    'R3': 'sibling agreement insert_outpoints vs OutPointsCache::remove (item classes, +-1, delete at 0, map pairing)',
    'R4': 'WRITERS of OutPointsCache / GenericUnstableBlocks / BlockTree bookkeeping fields',
    'R5': 'every field of the bookkeeping structures (announced headers, outpoint cache, deltas, tree) is carried across upgrades (= C09.R1 restricted to them)',
}
ASSUMPTIONS = []
UB = 'ic_btc_canister::unstable_blocks::'
OC = UB + 'outpoints_cache::OutPointsCache'
BT = 'ic_btc_canister::blocktree::BlockTree'
GUB = UB + 'GenericUnstableBlocks'


def delta_records_all(ctx, rule='R3'):
    """the per-block delta (removed / added outpoints by address) that balance and UTXO queries replay
    records every input / output whose script has an address form: the two pushes are conditional only on
    the loops, the null-outpoint skip, the lookups and `Address::from_script` being Ok"""
    prog = ctx.prog
    from sa import pat as P
    from sa.expr import ex, cond_exprs, walk, show
    f = ctx.fn(rule, 'ic_btc_canister::unstable_blocks::outpoints_cache::insert_outpoints')
    if not f:
        return
    e = ex(prog, f)

    def plain(c):
        if c[0] == 'is':
            return P.call('*::next', P.anything)(c[1]) or (tuple(c[2]) == ('Ok',) and P.call('*::Address::from_script', P.anything, P.anything)(c[1]))
        if c[0] == 'hidden':
            return any(isinstance(x, tuple) and x[0] == 'call' and x[1].rsplit('::', 1)[-1] in ('get_tx_out', 'get', 'get_utxo', 'ok_or_else', 'branch') for x in walk(c[1]))
        return P.not_(P.call('*::is_null', P.anything))(c)
    n = 0
    for c in f.calls():
        if c.cleanup or not c.matches('alloc::vec::Vec::push'):
            continue
        tgt = e.operand(c.args[0])
        if not P.has(P.call('*::Address::from_script', P.anything, P.anything))(tgt):
            continue
        n += 1
        extra = [k for k in cond_exprs(prog, f, c.bb) if not plain(k)]
        which = 'removed' if P.has(P.call('*::is_null', P.anything))(('x', cond_exprs(prog, f, c.bb))) or any(P.not_(P.call('*::is_null', P.anything))(k) for k in cond_exprs(prog, f, c.bb)) else 'added'
        ctx.check(not extra, rule, 'delta-records-every-address-' + ('input' if which == 'removed' else 'output'), c,
                  'the %s-outpoints delta records every %s whose script has an address form' % (which, 'spent input' if which == 'removed' else 'created output'),
                  'recording into the %s-outpoints delta also depends on %s: balance and UTXO queries that replay the delta miss those outpoints while the block is unstable'
                  % (which, [show(k)[:90] if k[0] not in ('is', 'hidden') else (k[0], show(k[1])[:70]) for k in extra][:2]))
    ctx.floor(rule, 'delta pushes in insert_outpoints', n, 2)


def run(ctx):
    delta_records_all(ctx)
    prog = ctx.prog
    # ---------------- R1 ------------------------------------------------------------------------
    require_callers(ctx, 'R1', 'callers:new_cached', ['ic_btc_canister::blocktree::CachedBlock::new_cached'],
                    {BT + '::extend_cached', BT + '::new_with_shared_cache', BT + '::into_cached'}, floor=3)
    require_callers(ctx, 'R1', 'callers:insert_outpoints', [UB + 'outpoints_cache::insert_outpoints'], {UB + 'push', GUB + '::new'}, floor=2)
    ins = [c for c in prog.all_calls() if c.gshort and c.gshort.endswith('BlocksCache::insert') and not c.cleanup]
    roots = sorted({prog.root_of(c.fn).short for c in ins})
    ctx.check(roots == ['ic_btc_canister::blocktree::CachedBlock::new_cached'], 'R1', 'callers:cache-insert', ins[0] if ins else '',
              'block bodies are inserted into the cache only by CachedBlock::new_cached', 'BlocksCache::insert called from %s' % roots)
    push = ctx.fn('R1', UB + 'push')
    if push:
        g = cfg(push)
        io = [c for c in push.calls_to(UB + 'outpoints_cache::insert_outpoints') if not c.cleanup]
        ec = [c for c in push.calls_to(BT + '::extend_cached') if not c.cleanup]
        rm = [c for c in push.calls_to(UB + 'next_block_headers::NextBlockHeaders::remove') if not c.cleanup]
        rf = [c for c in push.calls_to(GUB + '::refresh_tip_depths_cache') if not c.cleanup]
        ctx.saw_calls(len(push.calls()))
        ctx.check(bool(io) and bool(ec) and g.dominates(io[0].bb, ec[0].bb), 'R1', 'push:outpoints-before-extend', ec[0] if ec else push,
                  'push caches the block\'s outpoints before the tree is extended', 'push does not cache outpoints before extending the tree')
        oks = [bb for bb, e, _ in table(prog, push) if P.agg(variant='Ok')(e)]
        for name, cs in (('announced-header-removed', rm), ('tip-depths-refreshed', rf)):
            good = bool(cs) and bool(oks) and all(g.dominates(cs[0].bb, o) for o in oks)
            ctx.check(good, 'R1', 'push:' + name, cs[0] if cs else push, 'every Ok return of push passes `%s`' % name, 'an Ok return of push skips `%s`' % name)
        if rm:
            a = ex(prog, push).operand(rm[0].args[1])
            ctx.check(P.has(P.call('ic_btc_types::Block::block_hash', P.param('block')))(a) or P.named('block_hash')(a), 'R1', 'push:removes-own-hash', rm[0],
                      'the announced header removed is the arrived block\'s own hash', 'push removes announced header %s' % show(a))
        if io:
            e = ex(prog, push)
            h = e.operand(io[0].args[3])
            good = P.binop('Add', P.binop('Add', P.call('ic_btc_canister::utxo_set::UtxoSet::next_height', P.param('utxos')), P.has(P.call(BT + '::find_mut'))), P.const(1))(h)
            ctx.check(good, 'R1', 'push:height', io[0], 'outpoints are cached with height = next_height + depth(parent) + 1', 'push caches outpoints at height %s' % show(h))
    # ---------------- R2 ------------------------------------------------------------------------
    pop = ctx.fn('R2', UB + 'pop')
    if pop:
        g = cfg(pop)
        e = ex(prog, pop)
        orm = [c for c in pop.calls_to(OC + '::remove') if not c.cleanup]
        rr = [c for c in pop.calls_to(BT + '::into_root_and_remove_from_cache') if not c.cleanup]
        ru = [c for c in pop.calls_to(UB + 'next_block_headers::NextBlockHeaders::remove_until_height') if not c.cleanup]
        rf = [c for c in pop.calls_to(GUB + '::refresh_tip_depths_cache') if not c.cleanup]
        somes = [bb for bb, x, _ in table(prog, pop) if P.agg(variant='Some')(x)]
        good = bool(orm) and bool(rr) and g.dominates(orm[0].bb, rr[0].bb) is False and g.reaches(orm[0].bb, rr[0].bb)
        # the loop header of the outpoint release dominates the body removal, and bodies are removed only after the loop is exhausted
        h = g.in_loop(orm[0].bb) if orm else None
        conds = cond_exprs(prog, pop, rr[0].bb) if rr else []
        exhausted = any(c[0] == 'is' and c[2] == ('None',) and P.has(P.call(BT + '::blocks'))(c[1]) for c in conds)
        ctx.check(bool(orm) and bool(rr) and h is not None and g.dominates(h, rr[0].bb) and exhausted, 'R2', 'pop:outpoints-before-bodies', rr[0] if rr else pop,
                  'pop releases the outpoints of every detached block (loop over tree.blocks() to exhaustion) before the bodies are removed from the cache',
                  'pop removes block bodies before/without releasing all outpoints (bodies are needed to release them)')
        if orm:
            src = e.operand(orm[0].args[1])
            ctx.check(P.has(P.call(BT + '::blocks', P.has(P.call(BT + '::remove_child'))))(src) or P.has(P.call('*::next'))(src), 'R2', 'pop:detached-tree', orm[0],
                      'the released blocks are those of the detached tree (old root and losing siblings)', 'released blocks come from %s' % show(src)[:200])
        for name, cs in (('announced-headers-pruned', ru), ('tip-depths-refreshed', rf)):
            good = bool(cs) and bool(somes) and all(g.dominates(cs[0].bb, s) for s in somes)
            ctx.check(good, 'R2', 'pop:' + name, cs[0] if cs else pop, 'every Some return of pop passes `%s`' % name, 'a Some return of pop skips `%s`' % name)
        if ru:
            ctx.check(P.param('stable_height')(e.operand(ru[0].args[1])), 'R2', 'pop:prune-height', ru[0], 'announced headers are pruned up to the stable height passed in', 'prune height is not the stable height')
        # swap: the detached tree is what is iterated/removed, the stable child's tree stays
        sw = [c for c in pop.calls() if not c.cleanup and c.matches('core::mem::swap')]
        ctx.check(len(sw) == 1, 'R2', 'pop:swap', sw[0] if sw else pop, 'the stable child\'s subtree replaces the tree (mem::swap)', 'tree replacement not found')
    rfc = ctx.fn('R2', BT + '::remove_from_cache')
    if rfc:
        g = cfg(rfc)
        e = ex(prog, rfc)
        rm = [c for c in rfc.calls() if not c.cleanup and c.gshort and c.gshort.endswith('BlocksCache::remove')]
        rec = [c for c in rfc.calls() if not c.cleanup and c.callee == rfc.id]
        good = len(rm) == 1 and P.has(P.field('block_hash', P.field('root', P.param('self'))))(e.operand(rm[0].args[1]))
        ctx.check(good, 'R2', 'remove_from_cache:own-root', rm[0] if rm else rfc, 'remove_from_cache removes its own root\'s body', 'remove_from_cache does not remove self.root.block_hash')
        it = [c for c in rfc.calls() if not c.cleanup and c.matches('*::into_iter', '*::iter', '*::drain')]
        src_ok = any(P.has(P.field('children', P.param('self')))(e.operand(c.args[0])) for c in it)
        bad = [c for c in rfc.calls() if not c.cleanup and c.matches('*::skip', '*::take', '*::filter', '*::step_by')]
        ctx.check(len(rec) == 1 and g.in_loop(rec[0].bb) is not None and src_ok and not bad, 'R2', 'remove_from_cache:all-children', rec[0] if rec else rfc,
                  'remove_from_cache recurses over all children', 'remove_from_cache does not recurse over all children')
    # ---------------- R3 ------------------------------------------------------------------------
    r3(ctx)
    # ---------------- R4 ------------------------------------------------------------------------
    W = {
        (OC, 'tx_outs'): {UB + 'outpoints_cache::insert_outpoints', OC + '::remove', OC + '::remove::decrement_count_and_maybe_remove'},
        (OC, 'added_outpoints'): {UB + 'outpoints_cache::insert_outpoints', OC + '::remove'},
        (OC, 'removed_outpoints'): {UB + 'outpoints_cache::insert_outpoints', OC + '::remove'},
        (GUB, 'tip_depths_cache'): {GUB + '::refresh_tip_depths_cache'},
        (GUB, 'outpoints_cache'): {UB + 'push', UB + 'pop'},
        (GUB, 'next_block_headers'): {GUB + '::insert_next_block_header', UB + 'push', UB + 'pop'},
        (BT, 'children'): {BT + '::extend', BT + '::remove_child', BT + '::find_mut::find_mut_helper', BT + '::clear_all_metrics', BT + '::find_mut'},
    }
    for (adt, fld), allowed in W.items():
        require_writers(ctx, 'R4', 'writers:%s.%s' % (adt.rsplit('::', 1)[-1], fld), adt, fld, allowed | {'*Deserialize*', '*__Visitor*', '*::deserialize*', 'ic_btc_canister::blocktree::serde::*'}, floor=1)
    require_callers(ctx, 'R4', 'callers:refresh_tip_depths_cache', [GUB + '::refresh_tip_depths_cache'], {UB + 'push', UB + 'pop', 'ic_btc_canister::post_upgrade'}, floor=3)
    # children are appended (arrival order preserved) and removed by index only
    ext = ctx.fn('R4', BT + '::extend')
    if ext:
        pushes = [c for c in ext.calls() if not c.cleanup and c.matches('alloc::vec::Vec::push') and P.has(P.field('children'))(ex(prog, ext).operand(c.args[0]))]
        other = [c for c in ext.calls() if not c.cleanup and c.matches('alloc::vec::Vec::insert', 'alloc::vec::Vec::swap_remove') ]
        ctx.check(len(pushes) >= 1 and not other, 'R4', 'children-appended', pushes[0] if pushes else ext, 'new children are appended with push (arrival order)', 'children are not appended with push')


def r3(ctx):
    prog = ctx.prog
    io = ctx.fn('R3', UB + 'outpoints_cache::insert_outpoints')
    rm = ctx.fn('R3', OC + '::remove')
    if not (io and rm):
        return
    def classes(f):
        e = ex(prog, f)
        g = cfg(f)
        out = {}
        # null previous outputs skipped
        nulls = [c for c in f.calls() if not c.cleanup and c.matches('bitcoin::blockdata::transaction::OutPoint::is_null')]
        out['null-inputs-skipped'] = bool(nulls) and P.has(P.field('previous_output'))(e.operand(nulls[0].args[0]))
        its = [show(e.operand(c.args[0])) for c in f.calls() if not c.cleanup and c.matches('core::slice::iter', '*::into_iter')]
        out['iterates-inputs'] = any('Transaction::input' in s for s in its)
        out['iterates-outputs'] = any('Transaction::output' in s for s in its)
        out['iterates-txdata'] = any('Block::txdata' in s for s in its)
        out['no-restricting-adaptor'] = not [c for c in f.calls() if not c.cleanup and c.matches('*::skip', '*::take', '*::filter', '*::step_by', '*::skip_while', '*::take_while')]
        # output outpoints built as OutPoint{txid: tx.txid(), vout: i as u32}
        aggs = [e.rvalue(st['rv']) for b in f.blocks for st in b['stmts'] if (st.get('rv') or {}).get('agg') == 'adt' and st['rv']['adt'] == 'ic_btc_types::OutPoint']
        out['output-outpoint'] = any(P.agg('OutPoint', txid=P.call('ic_btc_types::Transaction::txid', P.anything), vout=P.cast(P.has(P.call('*::next'))))(a) for a in aggs)
        return out
    ci, cr = classes(io), classes(rm)
    for k in sorted(ci):
        ctx.check(ci[k] and cr[k], 'R3', 'both:' + k, io if not ci[k] else rm,
                  'insert_outpoints and OutPointsCache::remove both satisfy `%s`' % k, '`%s`: insert_outpoints=%s, remove=%s — the two traversals disagree' % (k, ci[k], cr[k]))
    # reference count discipline
    TI = UB + 'outpoints_cache::TxOutInfo'
    incs = [x for _, _, x in field_assignments(prog, io, TI, 'count')]
    good = len(incs) == 2 and all(P.binop('Add', P.has(P.field('count')), P.const(1))(x) for x in incs)
    ctx.check(good, 'R3', 'count:+1-per-reference', io, 'insert_outpoints counts +1 per input reference and +1 per output (2 sites)', 'count updates in insert_outpoints: %s' % [show(x) for x in incs])
    # every reference is counted: the two increments sit under the loops (and the null-outpoint skip of the
    # inputs) only — an output that is already cached by a block of another fork is still one more reference
    # (seeded change C06-9: `if cache.tx_outs.contains_key(..) { continue }` in front of the output count)
    for bb_, _, x_ in field_assignments(prog, io, TI, 'count'):
        cs_ = cond_exprs(prog, io, bb_)
        extra = [c_ for c_ in cs_ if not (c_[0] == 'is' and P.call('*::next', P.anything)(c_[1])) and not (c_[0] == 'hidden' and P.has(P.call('*::branch', P.anything))(c_[1]))
                 and not P.not_(P.call('*::is_null', P.anything))(c_)]
        ctx.check(not extra, 'R3', 'count:every-reference-counted:%s' % ('input' if any(P.not_(P.call('*::is_null', P.anything))(c_) for c_ in cs_) else 'output'), io.where(bb_),
                  'the reference count is incremented for every input (except null outpoints) / every output of the block, whatever the cache already holds',
                  'a reference is counted only under %s: a block whose output is already cached by a competing fork does not count, and the entry is evicted with the other fork' % [show(c_)[:80] for c_ in extra])
    zero = [e_ for b in io.blocks for st in b['stmts'] for e_ in [ex(prog, io).rvalue(st['rv'])] if (st.get('rv') or {}).get('agg') == 'adt' and st['rv']['adt'] == TI]
    ctx.check(len(zero) == 2 and all(const_val(dict(z[4]).get('count')) == 0 for z in zero), 'R3', 'count:starts-at-0', io, 'new entries start with count 0 before the increment', 'TxOutInfo initial counts: %s' % [show(dict(z[4]).get('count')) for z in zero])
    dec = [f for f in prog.fns.values() if f.short == OC + '::remove::decrement_count_and_maybe_remove']
    if not dec:
        ctx.unknown('R3', 'count:-1', rm, 'decrement helper not found')
    else:
        d = dec[0]
        ctx.touch(d)
        decs = [x for _, _, x in field_assignments(prog, d, TI, 'count')]
        good = len(decs) == 1 and P.binop('Sub', P.has(P.field('count')), P.const(1))(decs[0])
        ctx.check(good, 'R3', 'count:-1', d, 'remove counts -1 per reference', 'count updates in remove: %s' % [show(x) for x in decs])
        rmv = [c for c in d.calls() if not c.cleanup and c.matches('alloc::collections::btree::map::BTreeMap::remove')]
        conds = cond_exprs(prog, d, rmv[0].bb) if rmv else []
        good = len(rmv) == 1 and any(P.binop('Eq', P.has(P.field('count')), P.const(0))(c) for c in conds)
        ctx.check(good, 'R3', 'count:delete-at-0', rmv[0] if rmv else d, 'an entry is deleted exactly when its count reaches 0', 'deletion condition: %s' % fmt_conds(conds))
        cs = [c for c in rm.calls() if not c.cleanup and c.callee == d.id]
        ctx.check(len(cs) == 2, 'R3', 'count:two-decrement-sites', rm, 'remove decrements once per input and once per output (2 sites)', 'remove has %d decrement sites' % len(cs))
    # merge of per-block counts into the cache: and_modify(count += n).or_insert(info)
    am = [c for c in io.calls() if not c.cleanup and c.matches('alloc::collections::btree::map::entry::Entry::and_modify')]
    oi = [c for c in io.calls() if not c.cleanup and c.matches('alloc::collections::btree::map::entry::Entry::or_insert')]
    okm = False
    for c in am:
        for cid in c.closure_args():
            cf = prog.fns.get(cid)
            if cf:
                fa = field_assignments(prog, cf, TI, 'count')
                okm = okm or any(P.binop('Add', P.has(P.field('count')), P.has(P.field('count')))(x) for _, _, x in fa)
    ctx.check(okm and bool(oi), 'R3', 'count:merge', am[0] if am else io, 'per-block counts are added onto existing cache entries (and_modify += count, or_insert)', 'merge of counts into the cache not recognised')
    # per-block address maps: both inserted under the block hash / both removed under the block hash
    e = ex(prog, io)
    ins = [(c, e.operand(c.args[0]), e.operand(c.args[1])) for c in io.calls() if not c.cleanup and c.matches('alloc::collections::btree::map::BTreeMap::insert')]
    flds = sorted(x[2] for _, a, k in ins for x in walk(a) if x[0] == 'field' and x[2] in ('added_outpoints', 'removed_outpoints') and P.has(P.call('ic_btc_types::Block::block_hash'))(k))
    ctx.check(flds == ['added_outpoints', 'removed_outpoints'], 'R3', 'maps:inserted-under-block-hash', io, 'both per-block address maps are stored under the block\'s hash', 'maps stored: %s' % flds)
    e2 = ex(prog, rm)
    rms = [(c, e2.operand(c.args[0]), e2.operand(c.args[1])) for c in rm.calls() if not c.cleanup and c.matches('alloc::collections::btree::map::BTreeMap::remove')]
    flds = sorted(x[2] for _, a, k in rms for x in walk(a) if x[0] == 'field' and x[2] in ('added_outpoints', 'removed_outpoints') and P.has(P.call('ic_btc_types::Block::block_hash'))(k))
    ctx.check(flds == ['added_outpoints', 'removed_outpoints'], 'R3', 'maps:removed-under-block-hash', rm, 'both per-block address maps are dropped under the block\'s hash', 'maps dropped: %s' % flds)
    # the maps removed lie on every return path of remove
    g = cfg(rm)
    rets = return_blocks(rm)
    ctx.check(bool(rms) and all(g.all_paths_pass(0, [c.bb], exits=rets) for c, _, _ in rms), 'R3', 'maps:removed-on-all-paths', rm, 'the per-block maps are dropped on every return path', 'a return path of remove keeps a per-block map')


# plumbing between the interface and the analysed functions (rules/plumbing.py)
_run_before_plumbing = run


def run(ctx):
    _run_before_plumbing(ctx)
    from rules import plumbing
    plumbing.blocks_enumeration(ctx, 'R2')
    # R5 (added after seeded change C20-5): the quantifier includes upgrades at any point — every field of the
    # bookkeeping structures is carried across an upgrade (= C09.R1 restricted to these structures); an index
    # that is dropped and rebuilt lossily leaves entries nothing prunes any more
    from sa.engine import SubCtx
    from rules import c09
    BK = ('omitted:NextBlockHeaders.', 'omitted:OutPointsCache.', 'omitted:GenericUnstableBlocks.', 'omitted:UtxosDelta.', 'omitted:BlockTree.', 'omitted:TxOutInfo.', 'omitted:IngestingBlock.')
    c09.r1(SubCtx(ctx, {'R1': 'R5'}, key_filter=lambda k: k.startswith(BK)))
    cov = c09.coverage(ctx.prog)
    mine = sorted(a for a in cov if ('omitted:%s.' % a.rsplit('::', 1)[-1]) in BK)
    full = [a for a in mine if not cov[a]['omitted']]
    ctx.ok('R5', 'bookkeeping-serialised', '', '%d bookkeeping structures examined, %d of them serialise every field: %s' % (len(mine), len(full), [a.rsplit('::', 1)[-1] for a in full]))
    ctx.floor('R5', 'bookkeeping structures examined for serialisation coverage', len(mine), 7)
