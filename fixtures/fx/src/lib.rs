//! Positive-control fixtures for the analysis primitives (DESIGN §7.1): a bad and a good twin per
//! primitive. Compiled by the same mirfacts driver on every check run (memoised by content hash).
#![allow(dead_code, unused_variables, clippy::all)]
use std::future::Future;
use std::pin::Pin;
use std::task::{Context, Poll};

pub struct Guard(());
static mut FLAG: bool = false;
impl Guard {
    pub fn new() -> Option<Guard> {
        Some(Guard(()))
    }
}
impl Drop for Guard {
    fn drop(&mut self) {}
}
pub struct Pending;
impl Future for Pending {
    type Output = ();
    fn poll(self: Pin<&mut Self>, _: &mut Context<'_>) -> Poll<()> {
        Poll::Ready(())
    }
}
pub fn sink(_: u32) {}
pub fn charge() {}

// --- SAVED across await
pub async fn guard_held() {
    let _g = match Guard::new() {
        Some(g) => g,
        None => return,
    };
    Pending.await;
}
pub async fn guard_dropped() {
    let _ = Guard::new();
    Pending.await;
}

// --- GATE
pub fn fallible(x: u32) -> Result<u32, ()> {
    if x > 3 { Ok(x) } else { Err(()) }
}
pub fn gate_good(x: u32) -> Result<u32, ()> {
    let v = fallible(x)?;
    sink(v);
    Ok(v)
}
pub fn gate_good_match(x: u32) -> u32 {
    match fallible(x) {
        Ok(v) => {
            sink(v);
            v
        }
        Err(()) => 0,
    }
}
pub fn gate_bad_ignored(x: u32) -> u32 {
    let _ = fallible(x);
    sink(0);
    0
}
pub fn gate_bad_inverted(x: u32) {
    if fallible(x).is_err() {
        sink(0)
    }
}
pub fn gate_bad_rejoin(x: u32) {
    if let Err(()) = fallible(x) {
        charge();
    }
    sink(1)
}

// --- WRITERS / READERS / CALLERS
pub struct S {
    pub a: u32,
    pub b: u32,
}
pub fn writes_a(s: &mut S) {
    s.a = 1;
}
pub fn borrows_a_mut(s: &mut S) {
    bump(&mut s.a);
}
pub fn bump(x: &mut u32) {
    *x += 1;
}
pub fn reads_b(s: &S) -> u32 {
    s.b
}
pub fn calls_via_closure(v: Vec<u32>) -> Vec<u32> {
    v.into_iter().map(|x| helper(x)).collect()
}
pub fn helper(x: u32) -> u32 {
    x + 1
}

// --- EXPR canonicalisation
pub fn cmp_le(a: u32, b: u32) -> bool {
    a <= b
}
pub fn cmp_not_gt(a: u32, b: u32) -> bool {
    !(a > b)
}
pub fn cmp_ge_flipped(a: u32, b: u32) -> bool {
    b >= a
}
pub fn cmp_trait(a: u32, b: u32) -> bool {
    PartialOrd::le(&a, &b)
}
pub fn cmp_lt(a: u32, b: u32) -> bool {
    a < b
}

// --- path conditions (disjunction) and tables
pub fn disj(a: bool, b: bool) -> u32 {
    if a || b {
        1
    } else {
        2
    }
}
pub enum E {
    X,
    Y,
    Z,
}
pub fn table(e: E) -> u32 {
    match e {
        E::X => 10,
        E::Y | E::Z => 20,
    }
}

// --- SPEC(flag = const)
pub fn assume(flag: bool) {
    if flag {
        charge()
    }
    sink(0)
}

// --- loops: refusal leaves / stays in the loop
pub fn loop_break(v: &[u32], c: u32) {
    for x in v {
        if *x < c {
            break;
        }
        sink(*x)
    }
}
pub fn loop_continue(v: &[u32], c: u32) {
    for x in v {
        if *x < c {
            continue;
        }
        sink(*x)
    }
}

// --- sign domain
pub fn signed_count(a: u32, b: u32) -> i32 {
    a as i32 - b as i32
}
pub fn cut_unguarded(c: u32, a: u32, b: u32) -> bool {
    signed_count(a, b) < c as i32
}
pub fn cut_guarded(c: u32, a: u32, b: u32) -> bool {
    c > 0 && signed_count(a, b) < c as i32
}

// --- inlining of helpers unknown to the rules (sa/inline.py): the caller must be analysed as if the
// helper's body stood in its place
fn inl_enough(c: u32, a: u32, b: u32) -> bool {
    c == 0 || signed_count(a, b) >= c as i32
}
pub fn inl_bool_caller(c: u32, a: u32, b: u32) {
    if !inl_enough(c, a, b) {
        return;
    }
    sink(a)
}
fn inl_check(len: usize, c: u32) -> Result<(), u32> {
    if len < c as usize {
        return Err(c);
    }
    Ok(())
}
pub fn inl_try_caller(len: usize, c: u32) -> Result<u32, u32> {
    inl_check(len, c)?;
    sink(c);
    Ok(c)
}
fn inl_check_wrong(len: usize, c: u32) -> Result<(), u32> {
    if len < c as usize {
        return Ok(());
    }
    Ok(())
}
pub fn inl_try_caller_wrong(len: usize, c: u32) -> Result<u32, u32> {
    inl_check_wrong(len, c)?;
    sink(c);
    Ok(c)
}
